(* Proofs about Model/Inject.v: rendering of template slots, independence of the rest of the package,
   and the de-duplication rules of process_metadata. *)
From FV Require Import Base.Prelude Model.Inject.

(* ---------------------------------------------------------------------------------------------- *)
(* strings and lists                                                                              *)
(* ---------------------------------------------------------------------------------------------- *)
Lemma sapp_assoc : forall a b c : string, (a +++ b) +++ c = a +++ b +++ c.
Proof. induction a as [|ch a IH]; intros b c; simpl; [reflexivity | now rewrite IH]. Qed.

Lemma sapp_nil_r : forall a : string, a +++ "" = a.
Proof. induction a as [|ch a IH]; simpl; [reflexivity | now rewrite IH]. Qed.

Lemma concat_str_app : forall a b : list string, concat_str (a ++ b) = concat_str a +++ concat_str b.
Proof.
  induction a as [|x a IH]; intros b; simpl; [reflexivity|].
  now rewrite IH, sapp_assoc.
Qed.

Lemma map_flat_map : forall (A B C : Type) (f : B -> C) (g : A -> list B) (l : list A),
  map f (flat_map g l) = flat_map (fun a => map f (g a)) l.
Proof.
  induction l as [|a l IH]; simpl; [reflexivity|].
  now rewrite map_app, IH.
Qed.

Lemma mem_str_In : forall x l, mem_str x l = true <-> In x l.
Proof.
  induction l as [|y l IH]; simpl; [split; [discriminate | tauto]|].
  destruct (String.eqb x y) eqn:E.
  - apply String.eqb_eq in E. subst. split; auto.
  - apply String.eqb_neq in E. rewrite IH. split; [auto|]. intros [H|H]; [congruence | exact H].
Qed.

Lemma lookup_In : forall (A : Type) k (l : list (string * A)) v, lookup k l = Some v -> In (k, v) l.
Proof.
  induction l as [|[k' v'] l IH]; simpl; intros v H; [discriminate|].
  destruct (String.eqb k k') eqn:E.
  - apply String.eqb_eq in E. inversion H. subst. now left.
  - right. now apply IH.
Qed.

(* ---------------------------------------------------------------------------------------------- *)
(* rendering                                                                                      *)
(* ---------------------------------------------------------------------------------------------- *)
Lemma render_for_eq : forall g l x y body,
  render_node g l (TFor x y body) =
  concat_str (map (fun v => render_nodes g ((x, v) :: l) body) (g y)).
Proof.
  intros g l x y body. simpl. f_equal. apply map_ext. intros v.
  induction body as [|n r IH]; simpl; [reflexivity | now rewrite IH].
Qed.

Lemma render_nodes_app : forall g l a b,
  render_nodes g l (a ++ b) = render_nodes g l a +++ render_nodes g l b.
Proof.
  induction a as [|n a IH]; intros b; simpl; [reflexivity|].
  now rewrite IH, sapp_assoc.
Qed.

Lemma uses_for_eq : forall y x y' body,
  uses_node y (TFor x y' body) = String.eqb y y' || uses y body.
Proof.
  intros. simpl. f_equal.
  induction body as [|n r IH]; simpl; [reflexivity | now rewrite IH].
Qed.

Lemma uses_app : forall y a b, uses y (a ++ b) = uses y a || uses y b.
Proof.
  induction a as [|n a IH]; intros b; simpl; [reflexivity|].
  now rewrite IH, orb_assoc.
Qed.

(* induction principle for the nested type *)
Section tnode_ind2.
  Variable P : tnode -> Prop.
  Hypothesis Htext : forall s, P (TText s).
  Hypothesis Hvar : forall x, P (TVar x).
  Hypothesis Hfor : forall x y body, Forall P body -> P (TFor x y body).
  Fixpoint tnode_ind2 (n : tnode) : P n :=
    match n with
    | TText s => Htext s
    | TVar x => Hvar x
    | TFor x y body =>
        Hfor x y body
          ((fix go (ns : list tnode) : Forall P ns :=
              match ns with
              | [] => Forall_nil P
              | n' :: r => Forall_cons n' (tnode_ind2 n') (go r)
              end) body)
    end.
End tnode_ind2.

(* a template's output depends only on the lists it loops over *)
Lemma render_node_indep : forall (g g' : genv) n l,
  (forall y, uses_node y n = true -> g y = g' y) ->
  render_node g l n = render_node g' l n.
Proof.
  intros g g' n. induction n as [s|x|x y body IH] using tnode_ind2; intros l H; try reflexivity.
  rewrite !render_for_eq.
  assert (Hy : g y = g' y).
  { apply H. rewrite uses_for_eq, String.eqb_refl. reflexivity. }
  rewrite <- Hy. f_equal. apply map_ext. intros v.
  assert (Hb : forall y0, uses y0 body = true -> g y0 = g' y0).
  { intros y0 Hu. apply H. rewrite uses_for_eq, Hu. apply orb_true_r. }
  clear H Hy. generalize ((x, v) :: l) as l'. intros l'.
  induction body as [|n r IHr]; simpl; [reflexivity|].
  inversion IH as [|n0 r0 Hn Hr]; subst.
  rewrite (Hn l'), IHr; try assumption; try reflexivity.
  - intros y0 Hu. apply Hb. simpl. rewrite Hu. apply orb_true_r.
  - intros y0 Hu. apply Hb. simpl. rewrite Hu. reflexivity.
Qed.

Lemma render_nodes_indep : forall (g g' : genv) t l,
  (forall y, uses y t = true -> g y = g' y) ->
  render_nodes g l t = render_nodes g' l t.
Proof.
  induction t as [|n t IH]; intros l H; simpl; [reflexivity|].
  rewrite (render_node_indep g g' n l), IH; [reflexivity| |].
  - intros y Hu. apply H. simpl. rewrite Hu. apply orb_true_r.
  - intros y Hu. apply H. simpl. rewrite Hu. reflexivity.
Qed.

(* the inserted value is copied: it is never looked at again, whatever it contains *)
Lemma render_var_verbatim : forall g l x v, lookup x l = Some v -> render_node g l (TVar x) = v.
Proof. intros g l x v H. simpl. now rewrite H. Qed.

Lemma flat_body_wrap : forall g l x v body,
  flat_body x body = true -> render_nodes g ((x, v) :: l) body = wrap x body v.
Proof.
  induction body as [|n r IH]; simpl; intros H; [reflexivity|].
  apply andb_true_iff in H. destruct H as [Hn Hr].
  destruct n as [s|z|x' y' b']; simpl.
  - now rewrite IH.
  - rewrite IH by assumption. apply String.eqb_eq in Hn. subst z.
    now rewrite String.eqb_refl.
  - discriminate.
Qed.

Lemma find_slot_spec : forall y t s,
  find_slot y t = Some s -> t = sl_pre s ++ TFor (sl_x s) y (sl_body s) :: sl_post s.
Proof.
  induction t as [|n t IH]; simpl; intros s H; [discriminate|].
  destruct n as [tx|vx|x y' body].
  - destruct (find_slot y t) as [s0|] eqn:E; simpl in H; [|discriminate].
    inversion H; subst; simpl. now rewrite <- (IH s0 eq_refl).
  - destruct (find_slot y t) as [s0|] eqn:E; simpl in H; [|discriminate].
    inversion H; subst; simpl. now rewrite <- (IH s0 eq_refl).
  - destruct (String.eqb y y') eqn:Ey.
    + apply String.eqb_eq in Ey. subst y'. inversion H; subst; simpl. reflexivity.
    + destruct (find_slot y t) as [s0|] eqn:E; simpl in H; [|discriminate].
      inversion H; subst; simpl. now rewrite <- (IH s0 eq_refl).
Qed.

(* the output of a template = what precedes the slot ++ one wrapped copy of every item, in order ++ what follows *)
Lemma slot_render : forall (g : genv) y t s,
  find_slot y t = Some s -> flat_body (sl_x s) (sl_body s) = true ->
  render t g =
    render_nodes g [] (sl_pre s)
    +++ concat_str (map (wrap (sl_x s) (sl_body s)) (g y))
    +++ render_nodes g [] (sl_post s).
Proof.
  intros g y t s Hf Hb. unfold render.
  rewrite (find_slot_spec y t s Hf) at 1.
  rewrite render_nodes_app. f_equal.
  change (render_nodes g [] (TFor (sl_x s) y (sl_body s) :: sl_post s))
    with (render_node g [] (TFor (sl_x s) y (sl_body s)) +++ render_nodes g [] (sl_post s)).
  rewrite render_for_eq. f_equal. f_equal. apply map_ext. intros v.
  now apply flat_body_wrap.
Qed.

Lemma wrap_parts_wrap : forall s a b v,
  wrap_parts s = Some (a, b) -> flat_body (sl_x s) (sl_body s) = true ->
  wrap (sl_x s) (sl_body s) v = a +++ v +++ b.
Proof.
  intros s a b v Hp Hb. unfold wrap_parts in Hp.
  destruct (sl_body s) as [|n1 r1]; [discriminate|].
  destruct n1 as [t1|z1|? ? ?]; try discriminate.
  - destruct r1 as [|n2 r2]; [discriminate|].
    destruct n2 as [?|z2|? ? ?]; try discriminate.
    destruct r2 as [|n3 r3].
    + inversion Hp; subst. simpl in *. rewrite andb_true_r in Hb. rewrite Hb. now rewrite !sapp_nil_r.
    + destruct n3 as [t3|?|? ? ?]; try discriminate. destruct r3; [|discriminate].
      inversion Hp; subst. simpl in *. rewrite andb_true_r in Hb. rewrite Hb. now rewrite sapp_nil_r.
  - destruct r1 as [|n2 r2].
    + inversion Hp; subst. simpl in *. rewrite andb_true_r in Hb. rewrite Hb. now rewrite !sapp_nil_r.
    + destruct n2 as [t2|?|? ? ?]; try discriminate. destruct r2; [|discriminate].
      inversion Hp; subst. simpl in *. apply andb_true_iff in Hb. destruct Hb as [Hb _]. rewrite Hb.
      now rewrite sapp_nil_r.
Qed.

(* ---------------------------------------------------------------------------------------------- *)
(* the info dict                                                                                  *)
(* ---------------------------------------------------------------------------------------------- *)
Lemma split_last_prop_val : forall c f q blocks srcs qs,
  split_last_prop c f srcs = Some qs ->
  flat_map (source_val c q blocks) srcs = flat_map q qs ++ ib_fetch f blocks.
Proof.
  induction srcs as [|s r IH]; simpl; intros qs H; [discriminate|].
  destruct s as [e|p].
  - destruct (split_last_prop c f r) as [qs'|] eqn:E; simpl in H; [|discriminate].
    inversion H; subst. simpl. rewrite (IH qs' eq_refl). now rewrite app_assoc.
  - destruct r; [|discriminate].
    destruct (lookup p (c_props c)) as [f'|] eqn:Ep; [|discriminate].
    destruct (String.eqb f f') eqn:Ef; [|discriminate].
    apply String.eqb_eq in Ef. subst f'. inversion H; subst. simpl. rewrite Ep. now rewrite app_nil_r.
Qed.

Lemma info_slot_key : forall c be q blocks f key qs,
  mem_str key (be_extra_keys be) = false -> key_shape c f key = Some qs ->
  info c be q blocks key = flat_map q qs ++ ib_fetch f blocks.
Proof.
  intros c be q blocks f key qs Hx Hk. unfold info. rewrite Hx.
  unfold key_shape in Hk. destruct (lookup key (c_wiring c)) as [srcs|]; [|discriminate].
  now apply split_last_prop_val.
Qed.

Lemma keys_of_field_In : forall c f key srcs p,
  In (key, srcs) (c_wiring c) -> In (SrcProp p) srcs -> lookup p (c_props c) = Some f ->
  In key (keys_of_field c f).
Proof.
  intros c f key srcs p Hin Hs Hp. unfold keys_of_field.
  apply in_flat_map. exists (key, srcs). split; [assumption|]. simpl.
  match goal with |- In key (if ?b then _ else _) => assert (Hb : b = true) end.
  { apply existsb_exists. exists (SrcProp p). split; [assumption|]. rewrite Hp. apply String.eqb_refl. }
  rewrite Hb. now left.
Qed.

(* a key other than the one of field f does not see the lines of f *)
Lemma info_other_keys : forall c be q f key blocks blocks',
  keys_of_field c f = [key] ->
  (forall f', f' <> f -> ib_fetch f' blocks' = ib_fetch f' blocks) ->
  forall k, k <> key -> info c be q blocks' k = info c be q blocks k.
Proof.
  intros c be q f key blocks blocks' Hk Hoth k Hne. unfold info.
  destruct (mem_str k (be_extra_keys be)); [reflexivity|].
  destruct (lookup k (c_wiring c)) as [srcs|] eqn:El; [|reflexivity].
  apply lookup_In in El.
  assert (Hs : forall s, In s srcs -> source_val c q blocks' s = source_val c q blocks s).
  { intros s Hin. destruct s as [e|p]; simpl; [reflexivity|].
    destruct (lookup p (c_props c)) as [f'|] eqn:Ep; [|reflexivity].
    apply Hoth. intros ->. apply Hne.
    pose proof (keys_of_field_In c f k srcs p El Hin Ep) as Hi.
    rewrite Hk in Hi. destruct Hi as [Hi|[]]. now symmetry. }
  clear El. induction srcs as [|s r IH]; simpl; [reflexivity|].
  rewrite Hs by now left. rewrite IH; [reflexivity|]. intros s' Hin. apply Hs. now right.
Qed.

(* ---------------------------------------------------------------------------------------------- *)
(* the region theorem, for any configuration                                                      *)
(* ---------------------------------------------------------------------------------------------- *)
Definition region (s : slot) (f : string) (blocks : list block) : string :=
  concat_str (flat_map (fun b => map (wrap (sl_x s) (sl_body s)) (get f b)) blocks).

(* the rest of the package is the same for two block lists that differ only in the lines of field f *)
Definition rest_independent (c : config) (be : backend) (q : qenv) (f file : string) (s : slot) (blocks : list block) : Prop :=
  forall blocks', (forall f', f' <> f -> ib_fetch f' blocks' = ib_fetch f' blocks) ->
    render_nodes (info c be q blocks') [] (sl_pre s) = render_nodes (info c be q blocks) [] (sl_pre s)
    /\ render_nodes (info c be q blocks') [] (sl_post s) = render_nodes (info c be q blocks) [] (sl_post s)
    /\ forall file' t', In (file', t') (be_templates be) -> file' <> file ->
         render t' (info c be q blocks') = render t' (info c be q blocks).

Lemma slot_of_inv : forall c be f file key s qs,
  slot_of c be f = Some (file, key, s, qs) ->
  keys_of_field c f = [key] /\ mem_str key (be_extra_keys be) = false /\ key_shape c f key = Some qs
  /\ (exists t0, filter (fun ft : string * list tnode => uses key (snd ft)) (be_templates be) = [(file, t0)])
  /\ (exists t, lookup file (be_templates be) = Some t /\ find_slot key t = Some s)
  /\ uses key (sl_pre s) = false /\ uses key (sl_body s) = false /\ uses key (sl_post s) = false
  /\ flat_body (sl_x s) (sl_body s) = true.
Proof.
  intros c be f file key s qs H. unfold slot_of in H.
  destruct (keys_of_field c f) as [|k0 [|? ?]] eqn:Ek; try discriminate.
  destruct (mem_str k0 (be_extra_keys be)) eqn:Ex; [discriminate|].
  destruct (key_shape c f k0) as [qs0|] eqn:Es; [|discriminate].
  destruct (filter (fun ft : string * list tnode => uses k0 (snd ft)) (be_templates be)) as [|[file0 t0] [|? ?]] eqn:Ef; try discriminate.
  destruct (lookup file0 (be_templates be)) as [t|] eqn:El; [|discriminate].
  destruct (find_slot k0 t) as [s0|] eqn:Efs; [|discriminate].
  match type of H with (if ?b then _ else _) = _ => destruct b eqn:Eb end; [|discriminate].
  inversion H; subst.
  apply andb_true_iff in Eb. destruct Eb as [Eb E4].
  apply andb_true_iff in Eb. destruct Eb as [Eb E3].
  apply andb_true_iff in Eb. destruct Eb as [E1 E2].
  apply negb_true_iff in E1. apply negb_true_iff in E2. apply negb_true_iff in E3.
  split; [reflexivity|]. split; [assumption|]. split; [assumption|].
  split; [exists t0; assumption|]. split; [exists t; split; [assumption | assumption]|].
  repeat split; assumption.
Qed.

Theorem regions_generic : forall c be f file key s qs,
  slot_of c be f = Some (file, key, s, qs) ->
  forall q blocks,
    render_file c be file q blocks =
      Some (render_nodes (info c be q blocks) [] (sl_pre s)
            +++ concat_str (map (wrap (sl_x s) (sl_body s)) (flat_map q qs))
            +++ region s f blocks
            +++ render_nodes (info c be q blocks) [] (sl_post s))
    /\ rest_independent c be q f file s blocks.
Proof.
  intros c be f file key s qs H q blocks.
  destruct (slot_of_inv _ _ _ _ _ _ _ H) as (Hk & Hx & Hs & [t0 Hf] & [t [Hl Hfs]] & Hpre & Hbody & Hpost & Hflat).
  split.
  - unfold render_file. rewrite Hl. f_equal.
    rewrite (slot_render _ key t s Hfs Hflat).
    rewrite (info_slot_key c be q blocks f key qs Hx Hs).
    rewrite map_app, concat_str_app, sapp_assoc. unfold region, ib_fetch.
    now rewrite !map_flat_map.
  - intros blocks' Hoth.
    pose proof (info_other_keys c be q f key blocks blocks' Hk Hoth) as Hio.
    assert (Hindep : forall t', uses key t' = false ->
              forall l, render_nodes (info c be q blocks') l t' = render_nodes (info c be q blocks) l t').
    { intros t' Hu l. apply render_nodes_indep. intros y Hy. apply Hio. intros ->. congruence. }
    split; [now apply Hindep|]. split; [now apply Hindep|].
    intros file' t' Hin Hne. unfold render. apply Hindep.
    destruct (uses key t') eqn:Hu; [|reflexivity]. exfalso.
    assert (Hi : In (file', t') (filter (fun ft : string * list tnode => uses key (snd ft)) (be_templates be))).
    { apply filter_In. split; assumption. }
    rewrite Hf in Hi. destruct Hi as [Hi|[]]. inversion Hi. congruence.
Qed.

(* ---------------------------------------------------------------------------------------------- *)
(* process_metadata: de-duplication                                                               *)
(* ---------------------------------------------------------------------------------------------- *)
Lemma list_str_eqb_eq : forall a b, list_str_eqb a b = true <-> a = b.
Proof.
  induction a as [|x a IH]; destruct b as [|y b]; simpl; split; intros H; try reflexivity; try discriminate.
  - apply andb_true_iff in H. destruct H as [H1 H2]. apply String.eqb_eq in H1. apply IH in H2. now subst.
  - inversion H; subst. rewrite String.eqb_refl. simpl. now apply IH.
Qed.

Lemma pyval_eqb_eq : forall a b, pyval_eqb a b = true <-> a = b.
Proof.
  destruct a as [x|x], b as [y|y]; simpl; split; intros H; try discriminate.
  - apply String.eqb_eq in H. now subst.
  - inversion H. apply String.eqb_refl.
  - apply list_str_eqb_eq in H. now subst.
  - inversion H. now apply list_str_eqb_eq.
Qed.

Lemma vals_eqb_eq : forall a b, vals_eqb a b = true <-> a = b.
Proof.
  induction a as [|[k v] a IH]; destruct b as [|[k' v'] b]; simpl; split; intros H; try reflexivity; try discriminate.
  - apply andb_true_iff in H. destruct H as [H H3]. apply andb_true_iff in H. destruct H as [H1 H2].
    apply String.eqb_eq in H1. apply pyval_eqb_eq in H2. apply IH in H3. now subst.
  - inversion H; subst. rewrite String.eqb_refl. simpl.
    rewrite (proj2 (pyval_eqb_eq v' v') eq_refl). simpl. now apply IH.
Qed.

Lemma block_eqb_eq : forall a b, block_eqb a b = true <-> a = b.
Proof.
  intros [n1 v1] [n2 v2]. unfold block_eqb. simpl. split; intros H.
  - apply andb_true_iff in H. destruct H as [H1 H2].
    apply pyval_eqb_eq in H1. apply vals_eqb_eq in H2. now subst.
  - inversion H; subst. rewrite (proj2 (pyval_eqb_eq n2 n2) eq_refl). simpl. now apply vals_eqb_eq.
Qed.

Definition names (l : list block) : list pyval := map b_name l.

Definition has_name (nm : pyval) (acc : list block) : bool :=
  existsb (fun b => pyval_eqb (b_name b) nm) acc.

(* the specification: a block is kept iff no earlier block has its name *)
Definition add1 (acc : list block) (s : block) : list block :=
  if has_name (b_name s) acc then acc else acc ++ [s].
Definition first_by_name (specs : list block) : list block := fold_left add1 specs [].

(* the InjectCodeBlock instances of the non-empty inject_code dictionaries, in order *)
Fixpoint specs_of (fields : list string) (md : list raw) : result (list block) :=
  match md with
  | [] => OK []
  | info :: r =>
      match info with
      | [] => specs_of fields r
      | _ => match mk_block fields info with
             | Error e => Error e
             | OK b => match specs_of fields r with OK l => OK (b :: l) | Error e => Error e end
             end
      end
  end.

Definition consistent (specs : list block) : Prop :=
  forall a b, In a specs -> In b specs -> b_name a = b_name b -> a = b.

Lemma has_name_true : forall nm acc, has_name nm acc = true <-> exists b, In b acc /\ b_name b = nm.
Proof.
  intros nm acc. unfold has_name. rewrite existsb_exists. split; intros [b [Hi Hb]]; exists b; split; try assumption.
  - now apply pyval_eqb_eq.
  - now apply pyval_eqb_eq.
Qed.

Lemma has_name_false : forall nm acc, has_name nm acc = false <-> ~ In nm (names acc).
Proof.
  intros nm acc. split.
  - intros H Hin. apply in_map_iff in Hin. destruct Hin as [b [Hb Hi]].
    assert (Ht : has_name nm acc = true) by (apply has_name_true; eauto). congruence.
  - intros H. destruct (has_name nm acc) eqn:E; [|reflexivity]. exfalso. apply H.
    apply has_name_true in E. destruct E as [b [Hi Hb]]. apply in_map_iff. eauto.
Qed.

Lemma NoDup_names_inj : forall l a b,
  NoDup (names l) -> In a l -> In b l -> b_name a = b_name b -> a = b.
Proof.
  induction l as [|x l IH]; simpl; intros a b Hnd Ha Hb Hn; [contradiction|].
  inversion Hnd as [|? ? Hx Hnd']; subst.
  destruct Ha as [Ha|Ha], Hb as [Hb|Hb]; subst.
  - reflexivity.
  - exfalso. apply Hx. rewrite Hn. now apply in_map.
  - exfalso. apply Hx. rewrite <- Hn. now apply in_map.
  - now apply IH.
Qed.

Lemma ok_to_add_consistent : forall spec acc,
  (forall b, In b acc -> b_name b = b_name spec -> b = spec) ->
  ok_to_add spec acc = OK (negb (has_name (b_name spec) acc)).
Proof.
  induction acc as [|b acc IH]; simpl; intros H; [reflexivity|].
  destruct (pyval_eqb (b_name b) (b_name spec)) eqn:En.
  - apply pyval_eqb_eq in En. rewrite (H b (or_introl eq_refl) En).
    now rewrite (proj2 (block_eqb_eq spec spec) eq_refl).
  - simpl. apply IH. intros b' Hi. apply H. now right.
Qed.

Lemma ok_to_add_sound : forall spec acc r,
  NoDup (names acc) -> ok_to_add spec acc = OK r ->
  r = negb (has_name (b_name spec) acc) /\ (forall b, In b acc -> b_name b = b_name spec -> b = spec).
Proof.
  induction acc as [|b acc IH]; simpl; intros r Hnd H.
  - inversion H. split; [reflexivity | intros b []].
  - inversion Hnd as [|? ? Hx Hnd']; subst.
    destruct (pyval_eqb (b_name b) (b_name spec)) eqn:En.
    + destruct (block_eqb b spec) eqn:Eb; [|discriminate]. inversion H; subst.
      apply block_eqb_eq in Eb. subst b. split; [reflexivity|].
      intros b' [Hb'|Hb'] Hn; [now symmetry|]. exfalso. apply Hx. rewrite <- Hn. now apply in_map.
    + simpl. destruct (IH r Hnd' H) as [Hr Hall]. split; [assumption|].
      intros b' [Hb'|Hb'] Hn; [|now apply Hall]. subst b'.
      rewrite (proj2 (pyval_eqb_eq _ _) Hn) in En. discriminate.
Qed.

Lemma ok_to_add_err : forall spec acc e,
  ok_to_add spec acc = Error e ->
  e = ErrValue /\ exists b, In b acc /\ b_name b = b_name spec /\ b <> spec.
Proof.
  induction acc as [|b acc IH]; simpl; intros e H; [discriminate|].
  destruct (pyval_eqb (b_name b) (b_name spec)) eqn:En.
  - destruct (block_eqb b spec) eqn:Eb; [discriminate|]. inversion H. split; [reflexivity|].
    exists b. split; [now left|]. split; [now apply pyval_eqb_eq|].
    intros ->. rewrite (proj2 (block_eqb_eq spec spec) eq_refl) in Eb. discriminate.
  - destruct (IH e H) as [He [b' [Hi Hb']]]. split; [assumption|]. exists b'. split; [now right | assumption].
Qed.

Lemma mk_block_err : forall fields info e, mk_block fields info = Error e -> e = ErrValue.
Proof.
  intros fields info e. unfold mk_block.
  destruct (forallb _ info); [|intros H; now inversion H].
  destruct (lookup "name" info); intros H; now inversion H.
Qed.

Lemma fold_add1_prefix : forall specs acc, exists ext, fold_left add1 specs acc = acc ++ ext.
Proof.
  induction specs as [|s specs IH]; intros acc; simpl.
  - exists []. now rewrite app_nil_r.
  - unfold add1 at 2. destruct (has_name (b_name s) acc).
    + apply IH.
    + destruct (IH (acc ++ [s])) as [ext He]. exists ([s] ++ ext). now rewrite He, app_assoc.
Qed.

Lemma fold_add1_incl : forall specs acc b, In b (fold_left add1 specs acc) -> In b acc \/ In b specs.
Proof.
  induction specs as [|s specs IH]; intros acc b H; simpl in *; [now left|].
  apply IH in H. destruct H as [H|H]; [|right; now right].
  unfold add1 in H. destruct (has_name (b_name s) acc); [now left|].
  apply in_app_or in H. destruct H as [H|[H|[]]]; [now left | right; now left].
Qed.

Lemma fold_add1_covers : forall specs acc s,
  In s specs -> exists b, In b (fold_left add1 specs acc) /\ b_name b = b_name s.
Proof.
  induction specs as [|x specs IH]; intros acc s H; simpl in *; [contradiction|].
  destruct H as [H|H]; [subst x | now apply IH].
  destruct (fold_add1_prefix specs (add1 acc s)) as [ext He]. rewrite He.
  unfold add1. destruct (has_name (b_name s) acc) eqn:E.
  - apply has_name_true in E. destruct E as [b [Hi Hb]]. exists b. split; [apply in_or_app; now left | assumption].
  - exists s. split; [|reflexivity]. apply in_or_app. left. apply in_or_app. right. now left.
Qed.

Lemma names_app : forall a b, names (a ++ b) = names a ++ names b.
Proof. intros. unfold names. apply map_app. Qed.

Lemma NoDup_snoc : forall (A : Type) (l : list A) x, NoDup l -> ~ In x l -> NoDup (l ++ [x]).
Proof.
  induction l as [|y l IH]; simpl; intros x Hnd Hx.
  - constructor; [intros [] | constructor].
  - inversion Hnd; subst. constructor.
    + intros Hin. apply in_app_or in Hin. destruct Hin as [Hin|[Hin|[]]]; [contradiction|]. subst. apply Hx. now left.
    + apply IH; [assumption|]. intros Hin. apply Hx. now right.
Qed.

Lemma process_ok : forall fields md acc blocks,
  NoDup (names acc) -> process fields md acc = OK blocks ->
  exists specs, specs_of fields md = OK specs
    /\ blocks = fold_left add1 specs acc
    /\ NoDup (names blocks)
    /\ (forall s, In s specs -> forall b, In b blocks -> b_name b = b_name s -> b = s).
Proof.
  induction md as [|info md IH]; intros acc blocks Hnd H.
  - simpl in H. inversion H; subst. exists []. simpl. repeat split; try assumption. intros s [].
  - simpl in H. destruct info as [|kv info'].
    + destruct (IH acc blocks Hnd H) as [specs Hs]. exists specs. simpl. exact Hs.
    + remember (kv :: info') as info eqn:Ei.
      destruct (mk_block fields info) as [spec|e] eqn:Em; [|discriminate].
      destruct (ok_to_add spec acc) as [r|e] eqn:Eo; [|discriminate].
      destruct (ok_to_add_sound spec acc r Hnd Eo) as [Hr Hsame].
      assert (Hspecs : forall specs', specs_of fields md = OK specs' -> specs_of fields (info :: md) = OK (spec :: specs')).
      { intros specs' Hs'. simpl. rewrite Ei. rewrite <- Ei. rewrite Em, Hs'. reflexivity. }
      destruct r.
      * (* a new name: appended *)
        symmetry in Hr. apply negb_true_iff in Hr.
        assert (Hnd' : NoDup (names (acc ++ [spec]))).
        { rewrite names_app. simpl. apply NoDup_snoc; [assumption|]. now apply has_name_false. }
        destruct (IH (acc ++ [spec]) blocks Hnd' H) as [specs' (Hs' & Hb & Hndb & Hall)].
        exists (spec :: specs'). split; [now apply Hspecs|]. split.
        { simpl. unfold add1 at 2. now rewrite Hr. }
        split; [assumption|].
        intros s [Hs|Hs] b Hib Hn; [subst s | now apply (Hall s Hs)].
        apply (NoDup_names_inj blocks); try assumption.
        destruct (fold_add1_prefix specs' (acc ++ [spec])) as [ext He]. rewrite Hb, He.
        apply in_or_app. left. apply in_or_app. right. now left.
      * (* an identical earlier block: skipped *)
        symmetry in Hr. apply negb_false_iff in Hr.
        destruct (IH acc blocks Hnd H) as [specs' (Hs' & Hb & Hndb & Hall)].
        exists (spec :: specs'). split; [now apply Hspecs|]. split.
        { simpl. unfold add1 at 2. now rewrite Hr. }
        split; [assumption|].
        intros s [Hs|Hs] b Hib Hn; [subst s | now apply (Hall s Hs)].
        apply has_name_true in Hr. destruct Hr as [b0 [Hi0 Hn0]].
        pose proof (Hsame b0 Hi0 Hn0) as ->.
        apply (NoDup_names_inj blocks); try assumption.
        destruct (fold_add1_prefix specs' acc) as [ext He]. rewrite Hb, He.
        apply in_or_app. now left.
Qed.

Lemma process_complete : forall fields md acc specs,
  specs_of fields md = OK specs ->
  (forall s, In s specs -> forall b, In b acc -> b_name b = b_name s -> b = s) ->
  consistent specs ->
  process fields md acc = OK (fold_left add1 specs acc).
Proof.
  induction md as [|info md IH]; intros acc specs Hs Hacc Hc.
  - simpl in Hs. inversion Hs; subst. reflexivity.
  - simpl in Hs. simpl. destruct info as [|kv info'].
    + now apply IH.
    + remember (kv :: info') as info eqn:Ei.
      destruct (mk_block fields info) as [spec|e] eqn:Em; [|discriminate].
      destruct (specs_of fields md) as [specs'|e] eqn:Es; [|discriminate].
      inversion Hs; subst specs.
      rewrite (ok_to_add_consistent spec acc); [|intros b Hi Hn; apply (Hacc spec (or_introl eq_refl) b Hi Hn)].
      simpl. unfold add1 at 2.
      assert (Hc' : consistent specs').
      { intros a b Ha Hb. apply Hc; now right. }
      destruct (has_name (b_name spec) acc) eqn:Eh; simpl.
      * apply IH; [reflexivity | | assumption]. intros s Hi. apply Hacc. now right.
      * apply IH; [reflexivity | | assumption].
        intros s Hi b Hib Hn. apply in_app_or in Hib. destruct Hib as [Hib|[Hib|[]]].
        -- apply (Hacc s (or_intror Hi) b Hib Hn).
        -- subst b. apply Hc; [now left | now right | assumption].
Qed.

Theorem dedup_ok_iff : forall fields md blocks,
  dedup fields md = OK blocks <->
  exists specs, specs_of fields md = OK specs /\ consistent specs /\ blocks = first_by_name specs.
Proof.
  intros fields md blocks. unfold dedup, first_by_name. split.
  - intros H. destruct (process_ok fields md [] blocks (NoDup_nil _) H) as [specs (Hs & Hb & Hnd & Hall)].
    exists specs. split; [assumption|]. split; [|assumption].
    intros a b Ha Hb' Hn.
    destruct (fold_add1_covers specs [] a Ha) as [blk [Hi Hblk]]. rewrite <- Hb in Hi.
    rewrite <- (Hall a Ha blk Hi Hblk). apply (Hall b Hb' blk Hi). congruence.
  - intros [specs (Hs & Hc & ->)]. apply process_complete; try assumption. intros s _ b [].
Qed.

Lemma process_err : forall fields md acc e, process fields md acc = Error e -> e = ErrValue.
Proof.
  induction md as [|info md IH]; intros acc e H; simpl in H; [discriminate|].
  destruct info as [|kv info']; [now apply (IH acc)|].
  remember (kv :: info') as info eqn:Ei.
  destruct (mk_block fields info) as [spec|e'] eqn:Em.
  - destruct (ok_to_add spec acc) as [[|]|e''] eqn:Eo.
    + now apply (IH (acc ++ [spec])).
    + now apply (IH acc).
    + inversion H; subst. now destruct (ok_to_add_err _ _ _ Eo).
  - inversion H; subst. eapply mk_block_err; eassumption.
Qed.

Theorem dedup_err_class : forall fields md e, dedup fields md = Error e -> e = ErrValue.
Proof. intros fields md e. apply process_err. Qed.

Lemma specs_of_In : forall fields md specs,
  specs_of fields md = OK specs ->
  (forall info, In info md -> info <> [] -> exists b, mk_block fields info = OK b /\ In b specs)
  /\ (forall b, In b specs -> exists info, In info md /\ info <> [] /\ mk_block fields info = OK b).
Proof.
  induction md as [|info md IH]; intros specs H; simpl in H.
  - inversion H; subst. split; [intros info [] | intros b []].
  - destruct info as [|kv info'].
    + destruct (IH specs H) as [H1 H2]. split.
      * intros info [Hi|Hi] Hne; [subst; congruence | now apply H1].
      * intros b Hb. destruct (H2 b Hb) as [info (Hi & Hne & Hm)]. exists info. split; [now right | now split].
    + remember (kv :: info') as info eqn:Ei.
      destruct (mk_block fields info) as [spec|e] eqn:Em; [|discriminate].
      destruct (specs_of fields md) as [specs'|e] eqn:Es; [|discriminate].
      inversion H; subst specs. destruct (IH specs' eq_refl) as [H1 H2]. split.
      * intros info0 [Hi|Hi] Hne.
        -- subst info0. exists spec. split; [assumption | now left].
        -- destruct (H1 info0 Hi Hne) as [b [Hm Hb]]. exists b. split; [assumption | now right].
      * intros b [Hb|Hb].
        -- subst b. exists info. split; [now left|]. split; [rewrite Ei; discriminate | assumption].
        -- destruct (H2 b Hb) as [info0 (Hi & Hne & Hm)]. exists info0. split; [now right | now split].
Qed.

(* every non-empty dictionary is represented by exactly one kept block, equal to it; nothing else is kept *)
Theorem dedup_once : forall fields md blocks,
  dedup fields md = OK blocks ->
  NoDup (names blocks)
  /\ (forall info, In info md -> info <> [] -> exists b, mk_block fields info = OK b /\ In b blocks)
  /\ (forall b, In b blocks -> exists info, In info md /\ info <> [] /\ mk_block fields info = OK b).
Proof.
  intros fields md blocks H. unfold dedup in H.
  destruct (process_ok fields md [] blocks (NoDup_nil _) H) as [specs (Hs & Hb & Hnd & Hall)].
  destruct (specs_of_In fields md specs Hs) as [H1 H2].
  split; [assumption|]. split.
  - intros info Hi Hne. destruct (H1 info Hi Hne) as [b [Hm Hib]]. exists b. split; [assumption|].
    destruct (fold_add1_covers specs [] b Hib) as [blk [Hiblk Hn]]. rewrite <- Hb in Hiblk.
    now rewrite <- (Hall b Hib blk Hiblk Hn).
  - intros b Hib. apply H2. rewrite Hb in Hib. apply fold_add1_incl in Hib. destruct Hib as [[]|Hib]. assumption.
Qed.

(* without repeated names nothing is dropped or reordered *)
Lemma fold_add1_nodup : forall specs acc,
  NoDup (names (acc ++ specs)) -> fold_left add1 specs acc = acc ++ specs.
Proof.
  induction specs as [|s specs IH]; intros acc H; simpl; [now rewrite app_nil_r|].
  assert (Hs : has_name (b_name s) acc = false).
  { apply has_name_false. rewrite names_app in H. simpl in H.
    apply NoDup_remove_2 in H. intros Hin. apply H. apply in_or_app. now left. }
  unfold add1 at 2. rewrite Hs.
  rewrite IH; rewrite <- app_assoc; simpl; [reflexivity | assumption].
Qed.

Theorem dedup_distinct_names : forall fields md specs,
  specs_of fields md = OK specs -> NoDup (names specs) -> dedup fields md = OK specs.
Proof.
  intros fields md specs Hs Hnd. apply dedup_ok_iff. exists specs. split; [assumption|]. split.
  - intros a b Ha Hb Hn. now apply (NoDup_names_inj specs).
  - unfold first_by_name. now rewrite fold_add1_nodup.
Qed.

(* same name, different content: ValueError *)
Theorem dedup_conflict : forall fields md specs a b,
  specs_of fields md = OK specs -> In a specs -> In b specs -> b_name a = b_name b -> a <> b ->
  dedup fields md = Error ErrValue.
Proof.
  intros fields md specs a b Hs Ha Hb Hn Hne.
  destruct (dedup fields md) as [blocks|e] eqn:E.
  - exfalso. apply dedup_ok_iff in E. destruct E as [specs' (Hs' & Hc & _)].
    rewrite Hs in Hs'. inversion Hs'; subst specs'. apply Hne. now apply Hc.
  - now rewrite (dedup_err_class _ _ _ E).
Qed.

Lemma specs_of_err : forall fields md info e,
  In info md -> info <> [] -> mk_block fields info = Error e -> forall specs, specs_of fields md <> OK specs.
Proof.
  intros fields md info e Hi Hne Hm specs Hs.
  destruct (specs_of_In fields md specs Hs) as [H1 _].
  destruct (H1 info Hi Hne) as [b [Hb _]]. congruence.
Qed.

(* an unknown field, or no name: ValueError *)
Theorem dedup_bad_item : forall fields md info,
  In info md -> info <> [] ->
  ((exists k v, In (k, v) info /\ k <> "name" /\ ~ In k fields) \/ lookup "name" info = None) ->
  dedup fields md = Error ErrValue.
Proof.
  intros fields md info Hi Hne Hbad.
  assert (Hm : mk_block fields info = Error ErrValue).
  { unfold mk_block. destruct (forallb _ info) eqn:Ef; [|reflexivity].
    destruct Hbad as [[k [v (Hin & Hk & Hf)]]|Hn]; [|now rewrite Hn].
    exfalso. rewrite forallb_forall in Ef. specialize (Ef (k, v) Hin). simpl in Ef.
    destruct (String.eqb k "name") eqn:E; [apply String.eqb_eq in E; contradiction|].
    apply mem_str_In in Ef. contradiction. }
  destruct (dedup fields md) as [blocks|e] eqn:E.
  - exfalso. apply dedup_ok_iff in E. destruct E as [specs (Hs & _)].
    now apply (specs_of_err fields md info ErrValue Hi Hne Hm specs).
  - now rewrite (dedup_err_class _ _ _ E).
Qed.

(* ---------------------------------------------------------------------------------------------- *)
(* from the computed slot table to the region statement                                           *)
(* ---------------------------------------------------------------------------------------------- *)
(* what C14 says about field f in backend be: one slot, at the documented place; the file holding it is
   (text before) ++ (the query's own items, wrapped) ++ (every line of f of every kept block, block order then
   line order, each wrapped by the static text a..b of the loop body, verbatim) ++ (text after); and nothing
   else in the package depends on the lines of f *)
Definition field_region_spec (c : config) (be : backend) (places : list (string * place)) (f : string) : Prop :=
  exists file key s qs a b p,
    slot_of c be f = Some (file, key, s, qs)
    /\ lookup f places = Some p /\ place_ok p file s = true
    /\ wrap_parts s = Some (a, b)
    /\ forall q blocks,
         render_file c be file q blocks =
           Some (render_nodes (info c be q blocks) [] (sl_pre s)
                 +++ concat_str (map (fun v => a +++ v +++ b) (flat_map q qs))
                 +++ concat_str (flat_map (fun blk => map (fun v => a +++ v +++ b) (get f blk)) blocks)
                 +++ render_nodes (info c be q blocks) [] (sl_post s))
         /\ rest_independent c be q f file s blocks.

Lemma region_of_field : forall c be places f,
  field_placed c be places f = true -> field_region_spec c be places f.
Proof.
  intros c be places f H. unfold field_placed in H.
  destruct (lookup f places) as [p|] eqn:Ep; [|discriminate].
  destruct (slot_of c be f) as [[[[file key] s] qs]|] eqn:Es; [|discriminate].
  assert (Hw : exists a b, wrap_parts s = Some (a, b)).
  { unfold place_ok in H. destruct (wrap_parts s) as [[a b]|]; [eauto | discriminate]. }
  destruct Hw as [a [b Hw]].
  exists file, key, s, qs, a, b, p.
  split; [assumption|]. split; [assumption|]. split; [assumption|]. split; [assumption|].
  intros q blocks. split.
  - destruct (regions_generic c be f file key s qs Es q blocks) as [Hr _].
    destruct (slot_of_inv _ _ _ _ _ _ _ Es) as (_ & _ & _ & _ & _ & _ & _ & _ & Hflat).
    assert (Hwrap : forall v, wrap (sl_x s) (sl_body s) v = a +++ v +++ b).
    { intros v. now apply wrap_parts_wrap. }
    rewrite Hr. unfold region.
    rewrite (map_ext _ _ Hwrap).
    rewrite (flat_map_ext _ _ (fun blk => map_ext _ _ Hwrap (get f blk))).
    reflexivity.
  - now destruct (regions_generic c be f file key s qs Es q blocks) as [_ Hi].
Qed.

Lemma regions_of_table : forall c be places,
  forallb (field_placed c be places) (c_fields c) = true ->
  forall md blocks, dedup (c_fields c) md = OK blocks ->
  forall f, In f (c_fields c) -> field_region_spec c be places f.
Proof.
  intros c be places H md blocks _ f Hin. apply region_of_field.
  rewrite forallb_forall in H. now apply H.
Qed.
