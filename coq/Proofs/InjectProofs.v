(* Proofs about Model/Inject.v: rendering of template slots, independence of the rest of the package,
   and the de-duplication rules of process_metadata. *)
From FV Require Import Base.Prelude Model.Inject.

(* ---------------------------------------------------------------------------------------------- *)
(* strings and lists                                                                              *)
(* ---------------------------------------------------------------------------------------------- *)
Lemma sapp_assoc : forall a b c : string, (a +++ b) +++ c = a +++ b +++ c.
Proof. induction a as [|ch a IH]; intros b c; simpl; [reflexivity | now rewrite IH]. Qed.

Lemma sapp_nil_r : forall a : string, a +++ "" = a.
Proof. induction a as [|ch a IH]; simpl; [reflexivity | now rewrite IH]. Qed.

Lemma concat_str_app : forall a b : list string, concat_str (a ++ b) = concat_str a +++ concat_str b.
Proof.
  induction a as [|x a IH]; intros b; simpl; [reflexivity|].
  now rewrite IH, sapp_assoc.
Qed.

Lemma map_flat_map : forall (A B C : Type) (f : B -> C) (g : A -> list B) (l : list A),
  map f (flat_map g l) = flat_map (fun a => map f (g a)) l.
Proof.
  induction l as [|a l IH]; simpl; [reflexivity|].
  now rewrite map_app, IH.
Qed.

Lemma mem_str_In : forall x l, mem_str x l = true <-> In x l.
Proof.
  induction l as [|y l IH]; simpl; [split; [discriminate | tauto]|].
  destruct (String.eqb x y) eqn:E.
  - apply String.eqb_eq in E. subst. split; auto.
  - apply String.eqb_neq in E. rewrite IH. split; [auto|]. intros [H|H]; [congruence | exact H].
Qed.

Lemma lookup_In : forall (A : Type) k (l : list (string * A)) v, lookup k l = Some v -> In (k, v) l.
Proof.
  induction l as [|[k' v'] l IH]; simpl; intros v H; [discriminate|].
  destruct (String.eqb k k') eqn:E.
  - apply String.eqb_eq in E. inversion H. subst. now left.
  - right. now apply IH.
Qed.

(* ---------------------------------------------------------------------------------------------- *)
(* rendering                                                                                      *)
(* ---------------------------------------------------------------------------------------------- *)
Lemma render_for_eq : forall g l x y body,
  render_node g l (TFor x y body) =
  concat_str (map (fun v => render_nodes g ((x, v) :: l) body) (g y)).
Proof.
  intros g l x y body. simpl. f_equal. apply map_ext. intros v.
  induction body as [|n r IH]; simpl; [reflexivity | now rewrite IH].
Qed.

Lemma render_nodes_app : forall g l a b,
  render_nodes g l (a ++ b) = render_nodes g l a +++ render_nodes g l b.
Proof.
  induction a as [|n a IH]; intros b; simpl; [reflexivity|].
  now rewrite IH, sapp_assoc.
Qed.

Lemma uses_for_eq : forall y x y' body,
  uses_node y (TFor x y' body) = String.eqb y y' || uses y body.
Proof.
  intros. simpl. f_equal.
  induction body as [|n r IH]; simpl; [reflexivity | now rewrite IH].
Qed.

Lemma uses_app : forall y a b, uses y (a ++ b) = uses y a || uses y b.
Proof.
  induction a as [|n a IH]; intros b; simpl; [reflexivity|].
  now rewrite IH, orb_assoc.
Qed.

(* induction principle for the nested type *)
Section tnode_ind2.
  Variable P : tnode -> Prop.
  Hypothesis Htext : forall s, P (TText s).
  Hypothesis Hvar : forall x, P (TVar x).
  Hypothesis Hfor : forall x y body, Forall P body -> P (TFor x y body).
  Fixpoint tnode_ind2 (n : tnode) : P n :=
    match n with
    | TText s => Htext s
    | TVar x => Hvar x
    | TFor x y body =>
        Hfor x y body
          ((fix go (ns : list tnode) : Forall P ns :=
              match ns with
              | [] => Forall_nil P
              | n' :: r => Forall_cons n' (tnode_ind2 n') (go r)
              end) body)
    end.
End tnode_ind2.

(* a template's output depends only on the lists it loops over *)
Lemma render_node_indep : forall (g g' : genv) n l,
  (forall y, uses_node y n = true -> g y = g' y) ->
  render_node g l n = render_node g' l n.
Proof.
  intros g g' n. induction n as [s|x|x y body IH] using tnode_ind2; intros l H; try reflexivity.
  rewrite !render_for_eq.
  assert (Hy : g y = g' y).
  { apply H. rewrite uses_for_eq, String.eqb_refl. reflexivity. }
  rewrite <- Hy. f_equal. apply map_ext. intros v.
  assert (Hb : forall y0, uses y0 body = true -> g y0 = g' y0).
  { intros y0 Hu. apply H. rewrite uses_for_eq, Hu. apply orb_true_r. }
  clear H Hy. generalize ((x, v) :: l) as l'. intros l'.
  induction body as [|n r IHr]; simpl; [reflexivity|].
  inversion IH as [|n0 r0 Hn Hr]; subst.
  rewrite (Hn l'), IHr; try assumption; try reflexivity.
  - intros y0 Hu. apply Hb. simpl. rewrite Hu. apply orb_true_r.
  - intros y0 Hu. apply Hb. simpl. rewrite Hu. reflexivity.
Qed.

Lemma render_nodes_indep : forall (g g' : genv) t l,
  (forall y, uses y t = true -> g y = g' y) ->
  render_nodes g l t = render_nodes g' l t.
Proof.
  induction t as [|n t IH]; intros l H; simpl; [reflexivity|].
  rewrite (render_node_indep g g' n l), IH; [reflexivity| |].
  - intros y Hu. apply H. simpl. rewrite Hu. apply orb_true_r.
  - intros y Hu. apply H. simpl. rewrite Hu. reflexivity.
Qed.

(* the inserted value is copied: it is never looked at again, whatever it contains *)
Lemma render_var_verbatim : forall g l x v, lookup x l = Some v -> render_node g l (TVar x) = v.
Proof. intros g l x v H. simpl. now rewrite H. Qed.

Lemma flat_body_wrap : forall g l x v body,
  flat_body x body = true -> render_nodes g ((x, v) :: l) body = wrap x body v.
Proof.
  induction body as [|n r IH]; simpl; intros H; [reflexivity|].
  apply andb_true_iff in H. destruct H as [Hn Hr].
  destruct n as [s|z|x' y' b']; simpl.
  - now rewrite IH.
  - rewrite IH by assumption. apply String.eqb_eq in Hn. subst z.
    now rewrite String.eqb_refl.
  - discriminate.
Qed.

Lemma find_slot_spec : forall y t s,
  find_slot y t = Some s -> t = sl_pre s ++ TFor (sl_x s) y (sl_body s) :: sl_post s.
Proof.
  induction t as [|n t IH]; simpl; intros s H; [discriminate|].
  destruct n as [tx|vx|x y' body].
  - destruct (find_slot y t) as [s0|] eqn:E; simpl in H; [|discriminate].
    inversion H; subst; simpl. now rewrite <- (IH s0 eq_refl).
  - destruct (find_slot y t) as [s0|] eqn:E; simpl in H; [|discriminate].
    inversion H; subst; simpl. now rewrite <- (IH s0 eq_refl).
  - destruct (String.eqb y y') eqn:Ey.
    + apply String.eqb_eq in Ey. subst y'. inversion H; subst; simpl. reflexivity.
    + destruct (find_slot y t) as [s0|] eqn:E; simpl in H; [|discriminate].
      inversion H; subst; simpl. now rewrite <- (IH s0 eq_refl).
Qed.

(* the output of a template = what precedes the slot ++ one wrapped copy of every item, in order ++ what follows *)
Lemma slot_render : forall (g : genv) y t s,
  find_slot y t = Some s -> flat_body (sl_x s) (sl_body s) = true ->
  render t g =
    render_nodes g [] (sl_pre s)
    +++ concat_str (map (wrap (sl_x s) (sl_body s)) (g y))
    +++ render_nodes g [] (sl_post s).
Proof.
  intros g y t s Hf Hb. unfold render.
  rewrite (find_slot_spec y t s Hf) at 1.
  rewrite render_nodes_app. f_equal.
  change (render_nodes g [] (TFor (sl_x s) y (sl_body s) :: sl_post s))
    with (render_node g [] (TFor (sl_x s) y (sl_body s)) +++ render_nodes g [] (sl_post s)).
  rewrite render_for_eq. f_equal. f_equal. apply map_ext. intros v.
  now apply flat_body_wrap.
Qed.

Lemma wrap_parts_wrap : forall s a b v,
  wrap_parts s = Some (a, b) -> flat_body (sl_x s) (sl_body s) = true ->
  wrap (sl_x s) (sl_body s) v = a +++ v +++ b.
Proof.
  intros s a b v Hp Hb. unfold wrap_parts in Hp.
  destruct (sl_body s) as [|n1 r1]; [discriminate|].
  destruct n1 as [t1|z1|? ? ?]; try discriminate.
  - destruct r1 as [|n2 r2]; [discriminate|].
    destruct n2 as [?|z2|? ? ?]; try discriminate.
    destruct r2 as [|n3 r3].
    + inversion Hp; subst. simpl in *. rewrite andb_true_r in Hb. rewrite Hb. now rewrite !sapp_nil_r.
    + destruct n3 as [t3|?|? ? ?]; try discriminate. destruct r3; [|discriminate].
      inversion Hp; subst. simpl in *. rewrite andb_true_r in Hb. rewrite Hb. now rewrite sapp_nil_r.
  - destruct r1 as [|n2 r2].
    + inversion Hp; subst. simpl in *. rewrite andb_true_r in Hb. rewrite Hb. now rewrite !sapp_nil_r.
    + destruct n2 as [t2|?|? ? ?]; try discriminate. destruct r2; [|discriminate].
      inversion Hp; subst. simpl in *. apply andb_true_iff in Hb. destruct Hb as [Hb _]. rewrite Hb.
      now rewrite sapp_nil_r.
Qed.

(* ---------------------------------------------------------------------------------------------- *)
(* the info dict                                                                                  *)
(* ---------------------------------------------------------------------------------------------- *)
Lemma split_last_prop_val : forall c f q blocks srcs qs,
  split_last_prop c f srcs = Some qs ->
  flat_map (source_val c q blocks) srcs = flat_map q qs ++ ib_fetch f blocks.
Proof.
  induction srcs as [|s r IH]; simpl; intros qs H; [discriminate|].
  destruct s as [e|p].
  - destruct (split_last_prop c f r) as [qs'|] eqn:E; simpl in H; [|discriminate].
    inversion H; subst. simpl. rewrite (IH qs' eq_refl). now rewrite app_assoc.
  - destruct r; [|discriminate].
    destruct (lookup p (c_props c)) as [f'|] eqn:Ep; [|discriminate].
    destruct (String.eqb f f') eqn:Ef; [|discriminate].
    apply String.eqb_eq in Ef. subst f'. inversion H; subst. simpl. rewrite Ep. now rewrite app_nil_r.
Qed.

Lemma info_slot_key : forall c be q blocks f key qs,
  mem_str key (be_extra_keys be) = false -> key_shape c f key = Some qs ->
  info c be q blocks key = flat_map q qs ++ ib_fetch f blocks.
Proof.
  intros c be q blocks f key qs Hx Hk. unfold info. rewrite Hx.
  unfold key_shape in Hk. destruct (lookup key (c_wiring c)) as [srcs|]; [|discriminate].
  now apply split_last_prop_val.
Qed.

Lemma keys_of_field_In : forall c f key srcs p,
  In (key, srcs) (c_wiring c) -> In (SrcProp p) srcs -> lookup p (c_props c) = Some f ->
  In key (keys_of_field c f).
Proof.
  intros c f key srcs p Hin Hs Hp. unfold keys_of_field.
  apply in_flat_map. exists (key, srcs). split; [assumption|]. simpl.
  match goal with |- In key (if ?b then _ else _) => assert (Hb : b = true) end.
  { apply existsb_exists. exists (SrcProp p). split; [assumption|]. rewrite Hp. apply String.eqb_refl. }
  rewrite Hb. now left.
Qed.

(* a key other than the one of field f does not see the lines of f *)
Lemma info_other_keys : forall c be q f key blocks blocks',
  keys_of_field c f = [key] ->
  (forall f', f' <> f -> ib_fetch f' blocks' = ib_fetch f' blocks) ->
  forall k, k <> key -> info c be q blocks' k = info c be q blocks k.
Proof.
  intros c be q f key blocks blocks' Hk Hoth k Hne. unfold info.
  destruct (mem_str k (be_extra_keys be)); [reflexivity|].
  destruct (lookup k (c_wiring c)) as [srcs|] eqn:El; [|reflexivity].
  apply lookup_In in El.
  assert (Hs : forall s, In s srcs -> source_val c q blocks' s = source_val c q blocks s).
  { intros s Hin. destruct s as [e|p]; simpl; [reflexivity|].
    destruct (lookup p (c_props c)) as [f'|] eqn:Ep; [|reflexivity].
    apply Hoth. intros ->. apply Hne.
    pose proof (keys_of_field_In c f k srcs p El Hin Ep) as Hi.
    rewrite Hk in Hi. destruct Hi as [Hi|[]]. now symmetry. }
  clear El. induction srcs as [|s r IH]; simpl; [reflexivity|].
  rewrite Hs by now left. rewrite IH; [reflexivity|]. intros s' Hin. apply Hs. now right.
Qed.

(* ---------------------------------------------------------------------------------------------- *)
(* the region theorem, for any configuration                                                      *)
(* ---------------------------------------------------------------------------------------------- *)
Definition region (s : slot) (f : string) (blocks : list block) : string :=
  concat_str (flat_map (fun b => map (wrap (sl_x s) (sl_body s)) (get f b)) blocks).

(* the rest of the package is the same for two block lists that differ only in the lines of field f *)
Definition rest_independent (c : config) (be : backend) (q : qenv) (f file : string) (s : slot) (blocks : list block) : Prop :=
  forall blocks', (forall f', f' <> f -> ib_fetch f' blocks' = ib_fetch f' blocks) ->
    render_nodes (info c be q blocks') [] (sl_pre s) = render_nodes (info c be q blocks) [] (sl_pre s)
    /\ render_nodes (info c be q blocks') [] (sl_post s) = render_nodes (info c be q blocks) [] (sl_post s)
    /\ forall file' t', In (file', t') (be_templates be) -> file' <> file ->
         render t' (info c be q blocks') = render t' (info c be q blocks).

Lemma slot_of_inv : forall c be f file key s qs,
  slot_of c be f = Some (file, key, s, qs) ->
  keys_of_field c f = [key] /\ mem_str key (be_extra_keys be) = false /\ key_shape c f key = Some qs
  /\ (exists t0, filter (fun ft : string * list tnode => uses key (snd ft)) (be_templates be) = [(file, t0)])
  /\ (exists t, lookup file (be_templates be) = Some t /\ find_slot key t = Some s)
  /\ uses key (sl_pre s) = false /\ uses key (sl_body s) = false /\ uses key (sl_post s) = false
  /\ flat_body (sl_x s) (sl_body s) = true.
Proof.
  intros c be f file key s qs H. unfold slot_of in H.
  destruct (keys_of_field c f) as [|k0 [|? ?]] eqn:Ek; try discriminate.
  destruct (mem_str k0 (be_extra_keys be)) eqn:Ex; [discriminate|].
  destruct (key_shape c f k0) as [qs0|] eqn:Es; [|discriminate].
  destruct (filter (fun ft : string * list tnode => uses k0 (snd ft)) (be_templates be)) as [|[file0 t0] [|? ?]] eqn:Ef; try discriminate.
  destruct (lookup file0 (be_templates be)) as [t|] eqn:El; [|discriminate].
  destruct (find_slot k0 t) as [s0|] eqn:Efs; [|discriminate].
  match type of H with (if ?b then _ else _) = _ => destruct b eqn:Eb end; [|discriminate].
  inversion H; subst.
  apply andb_true_iff in Eb. destruct Eb as [Eb E4].
  apply andb_true_iff in Eb. destruct Eb as [Eb E3].
  apply andb_true_iff in Eb. destruct Eb as [E1 E2].
  apply negb_true_iff in E1. apply negb_true_iff in E2. apply negb_true_iff in E3.
  split; [reflexivity|]. split; [assumption|]. split; [assumption|].
  split; [exists t0; assumption|]. split; [exists t; split; [assumption | assumption]|].
  repeat split; assumption.
Qed.

Theorem regions_generic : forall c be f file key s qs,
  slot_of c be f = Some (file, key, s, qs) ->
  forall q blocks,
    render_file c be file q blocks =
      Some (render_nodes (info c be q blocks) [] (sl_pre s)
            +++ concat_str (map (wrap (sl_x s) (sl_body s)) (flat_map q qs))
            +++ region s f blocks
            +++ render_nodes (info c be q blocks) [] (sl_post s))
    /\ rest_independent c be q f file s blocks.
Proof.
  intros c be f file key s qs H q blocks.
  destruct (slot_of_inv _ _ _ _ _ _ _ H) as (Hk & Hx & Hs & [t0 Hf] & [t [Hl Hfs]] & Hpre & Hbody & Hpost & Hflat).
  split.
  - unfold render_file. rewrite Hl. f_equal.
    rewrite (slot_render _ key t s Hfs Hflat).
    rewrite (info_slot_key c be q blocks f key qs Hx Hs).
    rewrite map_app, concat_str_app, sapp_assoc. unfold region, ib_fetch.
    now rewrite !map_flat_map.
  - intros blocks' Hoth.
    pose proof (info_other_keys c be q f key blocks blocks' Hk Hoth) as Hio.
    assert (Hindep : forall t', uses key t' = false ->
              forall l, render_nodes (info c be q blocks') l t' = render_nodes (info c be q blocks) l t').
    { intros t' Hu l. apply render_nodes_indep. intros y Hy. apply Hio. intros ->. congruence. }
    split; [now apply Hindep|]. split; [now apply Hindep|].
    intros file' t' Hin Hne. unfold render. apply Hindep.
    destruct (uses key t') eqn:Hu; [|reflexivity]. exfalso.
    assert (Hi : In (file', t') (filter (fun ft : string * list tnode => uses key (snd ft)) (be_templates be))).
    { apply filter_In. split; assumption. }
    rewrite Hf in Hi. destruct Hi as [Hi|[]]. inversion Hi. congruence.
Qed.
