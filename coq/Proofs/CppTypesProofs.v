(* Proofs about Model/CppTypesModel.v (property C10). *)
From FV Require Import Base.Prelude Model.CppTypesModel.
From Coq Require Import ZArith List Bool Lia ZifyBool.

(* ========================================================================================== *)
(* 1. parse_type                                                                              *)
(* ========================================================================================== *)
Definition ws_or_star (c : ascii) : bool := is_ws c || is_star c.

Fixpoint takewhile {A} (f : A -> bool) (l : list A) : list A :=
  match l with [] => [] | x :: r => if f x then x :: takewhile f r else [] end.
Fixpoint dropwhile {A} (f : A -> bool) (l : list A) : list A :=
  match l with [] => [] | x :: r => if f x then dropwhile f r else l end.
Fixpoint count_if {A} (f : A -> bool) (l : list A) : nat :=
  match l with [] => O | x :: r => (if f x then 1 else 0) + count_if f r end.

(* the three components, defined without reference to the loop *)
Definition trailing_run (s : chars) : chars := rev (takewhile ws_or_star (rev s)).
Definition without_trailing_run (s : chars) : chars := rev (dropwhile ws_or_star (rev s)).
Definition core_of (s : chars) : chars := lstrip (without_trailing_run s).
Definition has_const (core : chars) : bool := prefix_chars const_kw core.
Definition strip_const (core : chars) : chars := if has_const core then skipn 6 core else core.

Lemma ws_not_star : forall c, is_ws c = true -> is_star c = false.
Proof.
  intros c H. unfold is_star. destruct (Ascii.eqb c "*"%char) eqn:E; [|reflexivity].
  apply Ascii.eqb_eq in E. subst c. vm_compute in H. discriminate.
Qed.

Lemma strip_stars_rev_spec : forall l : chars,
  strip_stars_rev l = (dropwhile ws_or_star l, count_if is_star (takewhile ws_or_star l)).
Proof.
  induction l as [|c r IH]; simpl; [reflexivity|].
  unfold ws_or_star at 1 3. destruct (is_ws c) eqn:W; simpl.
  - rewrite IH. rewrite (ws_not_star c W). reflexivity.
  - destruct (is_star c) eqn:Hs; simpl.
    + rewrite IH. rewrite ?Hs. reflexivity.
    + reflexivity.
Qed.

Lemma count_if_rev : forall {A} (f : A -> bool) (l : list A), count_if f (rev l) = count_if f l.
Proof.
  intros A f. assert (H : forall l1 l2, count_if f (l1 ++ l2) = count_if f l1 + count_if f l2).
  { induction l1; intros; simpl; [reflexivity|]. rewrite IHl1. lia. }
  induction l; simpl; [reflexivity|]. rewrite H, IHl. simpl. lia.
Qed.

(* what parse_type does, for every string *)
Lemma parse_chars_spec : forall s : chars,
  parse_chars s = (strip_const (core_of s), count_if is_star (trailing_run s), has_const (core_of s)).
Proof.
  intros s. unfold parse_chars. rewrite strip_stars_rev_spec.
  unfold strip_const, has_const, core_of, without_trailing_run, trailing_run.
  rewrite count_if_rev.
  destruct (prefix_chars const_kw (lstrip (rev (dropwhile ws_or_star (rev s))))); reflexivity.
Qed.

Lemma parse_type_spec_lemma : forall s : string,
  parse_type s =
  {| p_name := of_chars (strip_const (core_of (to_chars s)));
     p_depth := count_if is_star (trailing_run (to_chars s));
     p_const := has_const (core_of (to_chars s)) |}.
Proof. intros s. unfold parse_type. rewrite parse_chars_spec. reflexivity. Qed.

(* decomposition form: white space, a core that neither starts with white space nor ends in white space
   or a star, then a run of stars and white space *)
Definition core_ok (core : chars) : bool :=
  match core with
  | [] => true
  | a :: _ => negb (is_ws a) && negb (ws_or_star (last core a))
  end.

Lemma takewhile_app_all : forall {A} (f : A -> bool) (t rest : list A),
  forallb f t = true -> takewhile f (t ++ rest) = t ++ takewhile f rest.
Proof.
  intros A f. induction t as [|x t IH]; intros rest H; simpl in *; [reflexivity|].
  apply andb_true_iff in H as [Hx Ht]. rewrite Hx, IH by assumption. reflexivity.
Qed.
Lemma dropwhile_app_all : forall {A} (f : A -> bool) (t rest : list A),
  forallb f t = true -> dropwhile f (t ++ rest) = dropwhile f rest.
Proof.
  intros A f. induction t as [|x t IH]; intros rest H; simpl in *; [reflexivity|].
  apply andb_true_iff in H as [Hx Ht]. rewrite Hx. apply IH; assumption.
Qed.
Lemma forallb_rev : forall {A} (f : A -> bool) (l : list A), forallb f (rev l) = forallb f l.
Proof.
  intros A f. induction l; simpl; [reflexivity|].
  rewrite forallb_app, IHl. simpl. rewrite andb_true_r. apply andb_comm.
Qed.
Lemma takewhile_all : forall {A} (f : A -> bool) (l : list A), forallb f l = true -> takewhile f l = l.
Proof.
  intros A f. induction l; simpl; intros H; [reflexivity|].
  apply andb_true_iff in H as [Hx Ht]. rewrite Hx, IHl by assumption. reflexivity.
Qed.
Lemma dropwhile_all : forall {A} (f : A -> bool) (l : list A), forallb f l = true -> dropwhile f l = [].
Proof.
  intros A f. induction l; simpl; intros H; [reflexivity|].
  apply andb_true_iff in H as [Hx Ht]. rewrite Hx. apply IHl; assumption.
Qed.
Lemma lstrip_app_ws : forall lead rest : chars, forallb is_ws lead = true -> lstrip (lead ++ rest) = lstrip rest.
Proof.
  induction lead; intros rest H; simpl in *; [reflexivity|].
  apply andb_true_iff in H as [Hx Ht]. rewrite Hx. apply IHlead; assumption.
Qed.
Lemma ws_is_ws_or_star : forall l : chars, forallb is_ws l = true -> forallb ws_or_star l = true.
Proof.
  induction l; simpl; intros H; [reflexivity|].
  apply andb_true_iff in H as [Hx Ht]. unfold ws_or_star at 1. rewrite Hx, IHl by assumption. reflexivity.
Qed.

Lemma parse_chars_decomp : forall lead core tail : chars,
  forallb is_ws lead = true -> core_ok core = true -> forallb ws_or_star tail = true ->
  parse_chars (lead ++ core ++ tail) = (strip_const core, count_if is_star tail, has_const core).
Proof.
  intros lead core tail Hl Hc Ht.
  rewrite parse_chars_spec.
  assert (Hrun : trailing_run (lead ++ core ++ tail) = (if core then lead else []) ++ tail
                 /\ core_of (lead ++ core ++ tail) = core).
  { unfold core_of, trailing_run, without_trailing_run.
    rewrite !rev_app_distr.
    rewrite <- app_assoc.
    rewrite takewhile_app_all, dropwhile_app_all by (rewrite forallb_rev; assumption).
    destruct core as [|a core'].
    - simpl. rewrite takewhile_all, dropwhile_all by (rewrite forallb_rev; apply ws_is_ws_or_star; assumption).
      rewrite rev_app_distr, !rev_involutive. split; reflexivity.
    - assert (Hne : a :: core' <> []) by discriminate.
      destruct (exists_last Hne) as [body [z Hz]].
      unfold core_ok in Hc. apply andb_true_iff in Hc as [Ha Hz'].
      rewrite Hz in Hz'. rewrite last_last in Hz'. apply negb_true_iff in Hz'.
      assert (Hrc : rev (a :: core') = z :: rev body) by (rewrite Hz, rev_app_distr; reflexivity).
      rewrite Hrc. simpl takewhile. simpl dropwhile. rewrite Hz'.
      split.
      + rewrite app_nil_r, rev_involutive. reflexivity.
      + change (z :: rev body ++ rev lead) with ((z :: rev body) ++ rev lead).
        rewrite <- Hrc. rewrite <- rev_app_distr, rev_involutive.
        rewrite lstrip_app_ws by assumption.
        simpl. apply negb_true_iff in Ha. rewrite Ha. reflexivity. }
  destruct Hrun as [Hr Hco]. rewrite Hr, Hco.
  f_equal. f_equal.
  destruct core; [|reflexivity].
  assert (Hcnt : forall l1 l2 : chars, count_if is_star (l1 ++ l2) = count_if is_star l1 + count_if is_star l2).
  { induction l1; intros; simpl; [reflexivity|]. rewrite IHl1. lia. }
  rewrite Hcnt.
  assert (Hz : forall l : chars, forallb is_ws l = true -> count_if is_star l = 0).
  { induction l; simpl; intros H; [reflexivity|]. apply andb_true_iff in H as [Hx Hy].
    rewrite (ws_not_star _ Hx), IHl by assumption. reflexivity. }
  rewrite Hz by assumption. reflexivity.
Qed.

(* every string has such a decomposition *)
Lemma span_while : forall {A} (f : A -> bool) (l : list A), l = takewhile f l ++ dropwhile f l.
Proof. intros A f. induction l; simpl; [reflexivity|]. destruct (f a); simpl; [f_equal; assumption|reflexivity]. Qed.
Lemma takewhile_forallb : forall {A} (f : A -> bool) (l : list A), forallb f (takewhile f l) = true.
Proof. intros A f. induction l; simpl; [reflexivity|]. destruct (f a) eqn:E; simpl; [rewrite E; assumption|reflexivity]. Qed.
Lemma lstrip_is_dropwhile : forall l : chars, lstrip l = dropwhile is_ws l.
Proof. induction l; simpl; [reflexivity|]. destruct (is_ws a); [assumption|reflexivity]. Qed.

Lemma dropwhile_head : forall {A} (f : A -> bool) (l : list A) a r, dropwhile f l = a :: r -> f a = false.
Proof.
  intros A f. induction l; simpl; intros a0 r H; [discriminate|].
  destruct (f a) eqn:E; [eauto|]. inversion H; subst. assumption.
Qed.

Lemma dropwhile_prefix_last : forall (f g : ascii -> bool) (l : chars) a,
  (* dropping a prefix keeps the last element *)
  dropwhile f l <> [] -> last (dropwhile f l) a = last l a.
Proof.
  intros f g. induction l; simpl; intros a0 H; [reflexivity|].
  destruct (f a) eqn:E.
  - rewrite IHl by assumption. destruct l; [simpl in H; congruence|reflexivity].
  - reflexivity.
Qed.

Lemma last_rev_head : forall (l : chars) a r d, rev l = a :: r -> last l d = a.
Proof.
  intros l a r d H. assert (H' : l = rev r ++ [a]).
  { rewrite <- (rev_involutive l), H. reflexivity. }
  rewrite H'. apply last_last.
Qed.

Lemma parse_decomp_exists : forall s : chars,
  exists lead core tail,
    s = lead ++ core ++ tail /\ forallb is_ws lead = true /\ core_ok core = true /\ forallb ws_or_star tail = true.
Proof.
  intros s.
  set (w := without_trailing_run s).
  exists (takewhile is_ws w), (lstrip w), (trailing_run s).
  assert (Hs : s = w ++ trailing_run s).
  { unfold w, without_trailing_run, trailing_run. rewrite <- rev_app_distr, <- span_while, rev_involutive. reflexivity. }
  repeat split.
  - rewrite app_assoc, lstrip_is_dropwhile, <- span_while. exact Hs.
  - apply takewhile_forallb.
  - unfold core_ok. destruct (lstrip w) as [|a r] eqn:E; [reflexivity|].
    rewrite lstrip_is_dropwhile in E.
    rewrite (dropwhile_head _ _ _ _ E). cbn [negb andb].
    assert (Hne : dropwhile is_ws w <> []) by (rewrite E; discriminate).
    rewrite <- E. rewrite (dropwhile_prefix_last is_ws is_ws w a Hne).
    unfold w, without_trailing_run in *.
    destruct (dropwhile ws_or_star (rev s)) as [|z q] eqn:D.
    + simpl in E. discriminate.
    + rewrite (last_rev_head (rev (z :: q)) z q a) by apply rev_involutive.
      rewrite (dropwhile_head _ _ _ _ D). reflexivity.
  - unfold trailing_run. rewrite forallb_rev. apply takewhile_forallb.
Qed.

(* round trip used all over the code base: a clean name followed by k stars *)
Lemma stars_chars : forall k, to_chars (stars k) = repeat "*"%char k.
Proof. induction k; simpl; [reflexivity|]. unfold to_chars in *. simpl. rewrite IHk. reflexivity. Qed.
Lemma to_chars_app : forall a b, to_chars (a +++ b) = to_chars a ++ to_chars b.
Proof. induction a; intros b; simpl; [reflexivity|]. unfold to_chars in *. simpl. rewrite IHa. reflexivity. Qed.
Lemma of_to_chars : forall s, of_chars (to_chars s) = s.
Proof. intros s. apply string_of_list_ascii_of_string. Qed.

Lemma count_repeat_star : forall k, count_if is_star (repeat "*"%char k) = k.
Proof. induction k; simpl; [reflexivity|]. rewrite IHk. reflexivity. Qed.
Lemma forallb_repeat_star : forall k, forallb ws_or_star (repeat "*"%char k) = true.
Proof. induction k; simpl; [reflexivity|]. assumption. Qed.

Lemma parse_type_name_stars : forall (n : string) (k : nat),
  core_ok (to_chars n) = true -> has_const (to_chars n) = false ->
  parse_type (n +++ stars k) = {| p_name := n; p_depth := k; p_const := false |}.
Proof.
  intros n k Hc Hk. unfold parse_type. rewrite to_chars_app, stars_chars.
  pose proof (parse_chars_decomp [] (to_chars n) (repeat "*"%char k) eq_refl Hc (forallb_repeat_star k)) as H.
  simpl in H. rewrite H.
  unfold strip_const. rewrite Hk. rewrite of_to_chars, count_repeat_star. reflexivity.
Qed.

(* ========================================================================================== *)
(* 2. member access: string form                                                              *)
(* ========================================================================================== *)
Fixpoint rep_str (s : string) (n : nat) : string := match n with O => "" | S k => s +++ rep_str s k end.

Lemma str_app_assoc : forall a b c : string, (a +++ b) +++ c = a +++ b +++ c.
Proof. induction a; intros; simpl; [reflexivity|]. rewrite IHa. reflexivity. Qed.
Lemma str_app_nil_r : forall a : string, a +++ "" = a.
Proof. induction a; simpl; [reflexivity|]. rewrite IHa. reflexivity. Qed.

Lemma rep_str_comm : forall s n, rep_str s n +++ s = s +++ rep_str s n.
Proof. induction n; simpl; [rewrite str_app_nil_r; reflexivity|]. rewrite str_app_assoc, IHn. reflexivity. Qed.

Fixpoint wrap_gen (o c : string) (n : nat) (e : string) : string :=
  match n with O => e | S k => wrap_gen o c k (o +++ e +++ c) end.

Lemma wrap_gen_str : forall o c n e, wrap_gen o c n e = rep_str o n +++ e +++ rep_str c n.
Proof.
  intros o c. induction n; intros e.
  - simpl. rewrite str_app_nil_r. reflexivity.
  - change (wrap_gen o c (S n) e) with (wrap_gen o c n (o +++ e +++ c)). rewrite IHn.
    change (rep_str o (S n)) with (o +++ rep_str o n).
    change (rep_str c (S n)) with (c +++ rep_str c n).
    rewrite <- (rep_str_comm o n). rewrite !str_app_assoc. reflexivity.
Qed.

Lemma wrap_deref_gen : forall n e, wrap_deref n e = wrap_gen "(*" ")" n e.
Proof. induction n; intros e; [reflexivity|]. simpl. apply IHn. Qed.

Lemma wrap_deref_str : forall n e, wrap_deref n e = rep_str "(*" n +++ e +++ rep_str ")" n.
Proof. intros. rewrite wrap_deref_gen. apply wrap_gen_str. Qed.

Lemma wrap_gen_shift : forall o c n e, wrap_gen o c n (o +++ e +++ c) = o +++ wrap_gen o c n e +++ c.
Proof.
  intros o c. induction n; intros e; [reflexivity|].
  change (wrap_gen o c (S n) (o +++ e +++ c)) with (wrap_gen o c n (o +++ (o +++ e +++ c) +++ c)).
  rewrite IHn. reflexivity.
Qed.

Lemma wrap_deref_render : forall n e, wrap_deref n e = render_aexp e (nderef n).
Proof.
  intros n e. rewrite wrap_deref_gen. induction n; [reflexivity|].
  change (wrap_gen "(*" ")" (S n) e) with (wrap_gen "(*" ")" n ("(*" +++ e +++ ")")).
  rewrite wrap_gen_shift, IHn. reflexivity.
Qed.

Lemma member_access_render : forall e p x,
  member_access e p x = render_acc e (synth (x + Z.of_nat p)).
Proof.
  intros e p x. unfold member_access, synth.
  destruct (0 <? x + Z.of_nat p)%Z eqn:E; simpl.
  - rewrite wrap_deref_render. reflexivity.
  - replace (Z.to_nat (x + Z.of_nat p - 1)) with O by lia. reflexivity.
Qed.

Lemma member_access_cases : forall e p x,
  let d := (x + Z.of_nat p)%Z in
  ((d <= 0)%Z -> member_access e p x = e +++ ".") /\
  (d = 1%Z -> member_access e p x = e +++ "->") /\
  (forall k : nat, d = Z.of_nat (S (S k)) ->
     member_access e p x = rep_str "(*" (S k) +++ e +++ rep_str ")" (S k) +++ "->").
Proof.
  intros e p x d. unfold member_access. fold d. repeat split.
  - intros H. replace (Z.to_nat (d - 1)) with O by lia.
    destruct (0 <? d)%Z eqn:E; [lia|reflexivity].
  - intros H. rewrite H. reflexivity.
  - intros k H. replace (Z.to_nat (d - 1)) with (S k) by lia.
    destruct (0 <? d)%Z eqn:E; [|lia]. rewrite wrap_deref_str, !str_app_assoc. reflexivity.
Qed.

(* ========================================================================================== *)
(* 3. member access: typing in the pointer model                                              *)
(* ========================================================================================== *)
Lemma type_aexp_indirection : forall t e t',
  type_aexp t e = Some t' -> indirection t = aexp_derefs e + indirection t'.
Proof.
  intros t. induction e; intros t' H; simpl in *.
  - inversion H; subst. reflexivity.
  - destruct (type_aexp t e) as [u|] eqn:E; [|discriminate].
    specialize (IHe u eq_refl).
    destruct u; inversion H; subst; simpl in IHe; lia.
Qed.

(* any well-typed access performs exactly as many dereferences as the receiver is indirect *)
Lemma acc_ok_counts : forall t a, acc_ok t a = true -> acc_derefs a = indirection t.
Proof.
  intros t [e|e] H; simpl in *.
  - destruct (type_aexp t e) as [u|] eqn:E; [|discriminate]. destruct u; try discriminate.
    apply type_aexp_indirection in E. simpl in E. lia.
  - destruct (type_aexp t e) as [u|] eqn:E; [|discriminate].
    apply type_aexp_indirection in E.
    destruct u as [|u|u]; try discriminate; destruct u; try discriminate; simpl in E; lia.
Qed.

Lemma type_nderef_total : forall n t, n <= indirection t ->
  exists t', type_aexp t (nderef n) = Some t' /\ indirection t = n + indirection t'.
Proof.
  induction n; intros t H; simpl.
  - exists t. split; [reflexivity|lia].
  - destruct (IHn t ltac:(lia)) as [u [Hu Hi]]. rewrite Hu.
    destruct u as [|u|u]; simpl in Hi; [lia| |]; exists u; split; try reflexivity; lia.
Qed.

Lemma indirection_one : forall t, indirection t = 1 -> t = CPtr CObj \/ t = CSmart CObj.
Proof.
  intros [|u|u] H; simpl in H; try discriminate; destruct u; simpl in H; try discriminate; auto.
Qed.

Lemma synth_derefs : forall d, acc_derefs (synth d) = Z.to_nat d.
Proof.
  intros d. unfold synth. destruct (0 <? d)%Z eqn:E; simpl.
  - assert (H : forall n, aexp_derefs (nderef n) = n) by (induction n; simpl; congruence).
    rewrite H. lia.
  - lia.
Qed.

Lemma access_typed_iff : forall t d, acc_ok t (synth d) = true <-> indirection t = Z.to_nat d.
Proof.
  intros t d. split.
  - intros H. rewrite <- synth_derefs. symmetry. apply acc_ok_counts. assumption.
  - intros H. unfold synth. destruct (0 <? d)%Z eqn:E; simpl.
    + destruct (type_nderef_total (Z.to_nat (d - 1)) t ltac:(lia)) as [u [Hu Hi]].
      rewrite Hu. assert (H1 : indirection u = 1) by lia.
      destruct (indirection_one u H1) as [-> | ->]; reflexivity.
    + assert (H0 : indirection t = 0) by lia. destruct t; simpl in H0; try discriminate. reflexivity.
Qed.

(* the C++ type of a receiver the translator describes as `T` + p stars, where reaching the object that
   has the member takes k more overloaded dereferences of T *)
Fixpoint smart_layers (k : nat) : cty := match k with O => CObj | S j => CSmart (smart_layers j) end.
Fixpoint ptr_layers (p : nat) (t : cty) : cty := match p with O => t | S j => CPtr (ptr_layers j t) end.

Lemma indirection_layers : forall p k, indirection (ptr_layers p (smart_layers k)) = p + k.
Proof.
  induction p; intros k; simpl.
  - induction k; simpl; congruence.
  - rewrite IHp. reflexivity.
Qed.

Lemma access_typed_declared : forall (p k : nat) (x : Z),
  (0 <= x)%Z ->
  (acc_ok (ptr_layers p (smart_layers k)) (synth (x + Z.of_nat p)) = true <-> x = Z.of_nat k).
Proof.
  intros p k x Hx. rewrite access_typed_iff, indirection_layers. lia.
Qed.

(* ========================================================================================== *)
(* 4. registry                                                                                *)
(* ========================================================================================== *)
Lemma mkey_eqb_eq : forall a b, mkey_eqb a b = true <-> a = b.
Proof.
  intros [a1 a2] [b1 b2]. unfold mkey_eqb. simpl. rewrite andb_true_iff, !String.eqb_eq.
  split; [intros [-> ->]; reflexivity|intros H; inversion H; auto].
Qed.

Lemma lookup_add_same : forall r ty m i, method_type_info (add_method r ty m i) ty m = Some i.
Proof.
  intros. unfold add_method. simpl. replace (mkey_eqb (ty, m) (ty, m)) with true; [reflexivity|].
  symmetry. apply mkey_eqb_eq. reflexivity.
Qed.
Lemma lookup_add_other : forall r ty m i ty' m', (ty, m) <> (ty', m') ->
  method_type_info (add_method r ty m i) ty' m' = method_type_info r ty' m'.
Proof.
  intros. unfold add_method. simpl. destruct (mkey_eqb (ty, m) (ty', m')) eqn:E; [|reflexivity].
  apply mkey_eqb_eq in E. contradiction.
Qed.

(* what one well-formed declaration says *)
Definition info_of (m : method_md) : option minfo :=
  match md_return m with
  | OK t => Some {| mi_type := t; mi_deref := match md_deref m with Some z => z | None => 0%Z end |}
  | Error _ => None
  end.

Definition declares (i : md_item) (ty m : string) : option method_md :=
  match i with
  | MdMethod md =>
      match md_type_string md, md_method_name md with
      | Some ty', Some m' => if mkey_eqb (ty', m') (ty, m) then Some md else None
      | _, _ => None
      end
  | _ => None
  end.

(* the last declaration for (ty, m) in a metadata list *)
Fixpoint last_decl (l : list md_item) (ty m : string) : option method_md :=
  match l with
  | [] => None
  | i :: l' => match last_decl l' ty m with
               | Some md => Some md
               | None => declares i ty m
               end
  end.

Lemma md_step_lookup : forall r i r' ty m,
  md_step r i = OK r' ->
  method_type_info (r_methods r') ty m =
    match declares i ty m with
    | Some md => info_of md
    | None => method_type_info (r_methods r) ty m
    end.
Proof.
  intros r i r' ty m H. destruct i as [md|ns n vs|]; simpl in *.
  - unfold md_method, bind in H. unfold info_of.
    destruct (md_return md) as [t|e] eqn:Et; [|discriminate].
    destruct (md_type_string md) as [ty'|]; [|discriminate].
    destruct (md_method_name md) as [m'|]; [|discriminate].
    inversion H; subst; clear H. simpl.
    destruct (mkey_eqb (ty', m') (ty, m)) eqn:E; [unfold info_of; rewrite Et|]; reflexivity.
  - inversion H; subst. reflexivity.
  - inversion H; subst. reflexivity.
Qed.

Lemma declares_info : forall r i r' ty m md,
  md_step r i = OK r' -> declares i ty m = Some md -> exists x, info_of md = Some x.
Proof.
  intros r i r' ty m md H D. destruct i as [md'| |]; simpl in *; try discriminate.
  destruct (md_type_string md'); [|discriminate]. destruct (md_method_name md'); [|discriminate].
  destruct (mkey_eqb _ _); [|discriminate]. inversion D; subst.
  unfold md_method, bind in H. unfold info_of.
  destruct (md_return md); [eexists; reflexivity|discriminate].
Qed.

Lemma process_md_lookup : forall l r r' ty m,
  process_md r l = OK r' ->
  method_type_info (r_methods r') ty m =
    match last_decl l ty m with
    | Some md => info_of md
    | None => method_type_info (r_methods r) ty m
    end.
Proof.
  induction l as [|i l IH]; intros r r' ty m H; simpl in *.
  - inversion H; subst. reflexivity.
  - unfold bind in H. destruct (md_step r i) as [r1|e] eqn:E; [|discriminate].
    rewrite (IH r1 r' ty m H).
    destruct (last_decl l ty m); [reflexivity|].
    apply md_step_lookup. assumption.
Qed.

Lemma last_decl_info : forall l r r' ty m md,
  process_md r l = OK r' -> last_decl l ty m = Some md -> exists x, info_of md = Some x.
Proof.
  induction l as [|i l IH]; intros r r' ty m md H D; simpl in *; [discriminate|].
  unfold bind in H. destruct (md_step r i) as [r1|e] eqn:E; [|discriminate].
  destruct (last_decl l ty m) eqn:L.
  - inversion D; subst. eapply IH; eassumption.
  - eapply declares_info; eassumption.
Qed.

Definition double0 : minfo := {| mi_type := TTerm (mk_term "double" O); mi_deref := 0%Z |}.

Lemma registry_lemma : forall l g (parent : terminal) m,
  process_md empty_registry l = OK g ->
  determine_type_mf (r_methods g) parent m =
    match last_decl l (t_type parent) m with
    | Some md => match info_of md with Some i => OK (i, []) | None => Error ErrKey end
    | None => if mem_str (t_type parent) base_types then Error ErrTranslation
              else OK (double0, [warn_text (t_type parent) m])
    end.
Proof.
  intros l g parent m H. unfold determine_type_mf.
  rewrite (process_md_lookup l _ _ (t_type parent) m H). simpl.
  destruct (last_decl l (t_type parent) m) as [md|] eqn:L.
  - destruct (last_decl_info _ _ _ _ _ _ H L) as [x Hx]. rewrite Hx. reflexivity.
  - reflexivity.
Qed.

Lemma registry_declared_ok : forall l g ty m md,
  process_md empty_registry l = OK g -> last_decl l ty m = Some md -> exists i, info_of md = Some i.
Proof. intros. eapply last_decl_info; eassumption. Qed.

(* what a declaration means, spelled out *)
Lemma info_of_value : forall md rt,
  md_return_type md = Some rt ->
  info_of md = Some {| mi_type := TTerm {| t_type := p_name (parse_type rt); t_depth := p_depth (parse_type rt);
                                           t_const := false; t_tree := md_tree md |};
                       mi_deref := match md_deref md with Some z => z | None => 0%Z end |}.
Proof. intros md rt H. unfold info_of, md_return. rewrite H. reflexivity. Qed.

Lemma info_of_collection : forall md el,
  md_return_type md = None -> md_elem md = Some el ->
  exists arr,
    info_of md = Some {| mi_type := TColl arr (term_of_parsed (parse_type el));
                         mi_deref := match md_deref md with Some z => z | None => 0%Z end |} /\
    arr = match md_coll md with
          | Some c => term_of_parsed (parse_type c)
          | None => mk_term ("std::vector<" +++ str_parsed (parse_type el) +++ ">") O
          end.
Proof.
  intros md el H1 H2. unfold info_of, md_return. rewrite H1, H2.
  eexists. split; [reflexivity|]. destruct (md_coll md); reflexivity.
Qed.

(* ========================================================================================== *)
(* 5. enums                                                                                   *)
(* ========================================================================================== *)
Fixpoint no_dot (s : string) : bool :=
  match s with EmptyString => true | String c r => negb (is_dot c) && no_dot r end.

Lemma replace_dot_app : forall a b, replace_dot (a +++ b) = replace_dot a +++ replace_dot b.
Proof.
  induction a; intros b; simpl; [reflexivity|].
  destruct (is_dot a); rewrite IHa; reflexivity.
Qed.
Lemma replace_dot_nodot : forall s, no_dot s = true -> replace_dot s = s.
Proof.
  induction s; simpl; intros H; [reflexivity|].
  apply andb_true_iff in H as [H1 H2]. apply negb_true_iff in H1. rewrite H1, IHs by assumption. reflexivity.
Qed.
Lemma replace_dot_join : forall l, replace_dot (join_str "." l) = join_str "::" (map replace_dot l).
Proof.
  induction l as [|x l IH]; [reflexivity|].
  destruct l as [|y l'].
  - reflexivity.
  - change (join_str "." (x :: y :: l')) with (x +++ "." +++ join_str "." (y :: l')).
    change (map replace_dot (x :: y :: l')) with (replace_dot x :: map replace_dot (y :: l')).
    rewrite !replace_dot_app, IH. reflexivity.
Qed.

Lemma value_as_cpp_general : forall e v,
  value_as_cpp e v = join_str "::" (map replace_dot (en_path e)) +++ "::" +++ replace_dot v.
Proof.
  intros e v. unfold value_as_cpp, ns_full_name. rewrite !replace_dot_app, replace_dot_join. reflexivity.
Qed.

Lemma map_id_nodot : forall l, forallb no_dot l = true -> map replace_dot l = l.
Proof.
  induction l; simpl; intros H; [reflexivity|].
  apply andb_true_iff in H as [H1 H2]. rewrite replace_dot_nodot, IHl by assumption. reflexivity.
Qed.

Lemma join_snoc : forall sep l v, l <> [] -> join_str sep (l ++ [v]) = join_str sep l +++ sep +++ v.
Proof.
  intros sep. induction l as [|x l IH]; intros v H; [congruence|].
  destruct l as [|y l'].
  - reflexivity.
  - change ((x :: y :: l') ++ [v]) with (x :: ((y :: l') ++ [v])).
    change (join_str sep (x :: (y :: l') ++ [v])) with (x +++ sep +++ join_str sep ((y :: l') ++ [v])).
    rewrite IH by discriminate.
    change (join_str sep (x :: y :: l')) with (x +++ sep +++ join_str sep (y :: l')).
    rewrite !str_app_assoc. reflexivity.
Qed.

Lemma enum_render_lemma : forall e v,
  en_path e <> [] -> forallb no_dot (en_path e) = true -> no_dot v = true ->
  value_as_cpp e v = join_str "::" (en_path e ++ [v]).
Proof.
  intros e v Hne Hp Hv. rewrite value_as_cpp_general, map_id_nodot, replace_dot_nodot by assumption.
  rewrite join_snoc by assumption. reflexivity.
Qed.

(* split(".") yields dot-free, never-empty lists *)
Lemma no_dot_app_char : forall cur c, no_dot cur = true -> is_dot c = false -> no_dot (cur +++ String c "") = true.
Proof.
  induction cur; simpl; intros c H Hc.
  - rewrite Hc. reflexivity.
  - apply andb_true_iff in H as [H1 H2]. rewrite H1. simpl. apply IHcur; assumption.
Qed.
Lemma split_dot_aux_nodot : forall s cur, no_dot cur = true -> forallb no_dot (split_dot_aux s cur) = true.
Proof.
  induction s; intros cur H; simpl.
  - rewrite H. reflexivity.
  - destruct (is_dot a) eqn:E; simpl.
    + rewrite H. simpl. apply IHs. reflexivity.
    + apply IHs. apply no_dot_app_char; assumption.
Qed.
Lemma split_dot_nodot : forall s, forallb no_dot (split_dot s) = true.
Proof. intros s. apply split_dot_aux_nodot. reflexivity. Qed.
Lemma split_dot_nonempty : forall s, split_dot s <> [].
Proof.
  intros s. unfold split_dot. generalize "". induction s; intros cur; simpl; [discriminate|].
  destruct (is_dot a); [discriminate|apply IHs].
Qed.

(* registry of enums *)
Lemma list_str_eqb_eq : forall a b, list_str_eqb a b = true <-> a = b.
Proof.
  induction a; destruct b; simpl; split; intros H; try reflexivity; try discriminate.
  - apply andb_true_iff in H as [H1 H2]. apply String.eqb_eq in H1. apply IHa in H2. subst. reflexivity.
  - inversion H; subst. rewrite String.eqb_refl. simpl. apply IHa. reflexivity.
Qed.

Lemma find_enum_some : forall r p n d, find_enum r p n = Some d -> In d r /\ en_path d = p /\ en_name d = n.
Proof.
  induction r as [|e r IH]; simpl; intros p n d H; [discriminate|].
  destruct (list_str_eqb (en_path e) p && String.eqb (en_name e) n) eqn:E.
  - inversion H; subst. apply andb_true_iff in E as [E1 E2].
    apply list_str_eqb_eq in E1. apply String.eqb_eq in E2. auto.
  - destruct (IH _ _ _ H) as [H1 H2]. auto.
Qed.

Lemma find_enum_app : forall r1 r2 p n,
  find_enum (r1 ++ r2) p n = match find_enum r1 p n with Some d => Some d | None => find_enum r2 p n end.
Proof.
  induction r1; intros; simpl; [reflexivity|].
  destruct (list_str_eqb (en_path a) p && String.eqb (en_name a) n); [reflexivity|apply IHr1].
Qed.

(* the first definition of (namespace, name) is the one that stays *)
Lemma define_enum_first_wins : forall r ns n vs,
  find_enum (define_enum r ns n vs) (split_dot ns) n =
    match find_enum r (split_dot ns) n with
    | Some d => Some d
    | None => Some {| en_path := split_dot ns; en_name := n; en_values := vs |}
    end.
Proof.
  intros. unfold define_enum. destruct (find_enum r (split_dot ns) n) eqn:E.
  - exact E.
  - rewrite find_enum_app, E. simpl.
    replace (list_str_eqb (split_dot ns) (split_dot ns)) with true by (symmetry; apply list_str_eqb_eq; reflexivity).
    rewrite String.eqb_refl. reflexivity.
Qed.

Lemma define_enum_other : forall r ns n vs p n',
  (p, n') <> (split_dot ns, n) ->
  find_enum (define_enum r ns n vs) p n' = find_enum r p n'.
Proof.
  intros. unfold define_enum. destruct (find_enum r (split_dot ns) n); [reflexivity|].
  rewrite find_enum_app. destruct (find_enum r p n'); [reflexivity|]. simpl.
  destruct (list_str_eqb (split_dot ns) p && String.eqb n n') eqn:E; [|reflexivity].
  apply andb_true_iff in E as [E1 E2]. apply list_str_eqb_eq in E1. apply String.eqb_eq in E2. subst. congruence.
Qed.

Lemma is_prefix_refl : forall l, is_prefix l l = true.
Proof. induction l; simpl; [reflexivity|]. rewrite String.eqb_refl. assumption. Qed.
Lemma is_prefix_app : forall a b, is_prefix a (a ++ b) = true.
Proof. induction a; intros; simpl; [reflexivity|]. rewrite String.eqb_refl. apply IHa. Qed.
Lemma is_prefix_trans : forall a b c, is_prefix a b = true -> is_prefix b c = true -> is_prefix a c = true.
Proof.
  induction a; intros b c H1 H2; simpl; [reflexivity|].
  destruct b; simpl in H1; [discriminate|]. destruct c; simpl in H2; [discriminate|].
  apply andb_true_iff in H1 as [H1 H1']. apply andb_true_iff in H2 as [H2 H2'].
  apply String.eqb_eq in H1, H2. subst. rewrite String.eqb_refl. simpl. eapply IHa; eassumption.
Qed.

Lemma ns_exists_prefix : forall r q p, q <> [] -> is_prefix q p = true -> ns_exists r p = true -> ns_exists r q = true.
Proof.
  intros r q p Hq Hpre H. unfold ns_exists in *. destruct q; [congruence|]. destruct p; [discriminate|].
  apply existsb_exists in H as [e [He1 He2]]. apply existsb_exists. exists e. split; [assumption|].
  eapply is_prefix_trans; eassumption.
Qed.

Lemma ns_exists_of_enum : forall r p n d, p <> [] -> find_enum r p n = Some d -> ns_exists r p = true.
Proof.
  intros r p n d Hp H. apply find_enum_some in H as [H1 [H2 _]].
  unfold ns_exists. destruct p; [congruence|]. apply existsb_exists. exists d. split; [assumption|].
  rewrite H2. apply is_prefix_refl.
Qed.

(* walking down existing namespaces *)
Lemma walk_namespaces : forall g rest pre,
  pre <> [] -> ns_exists (r_enums g) (pre ++ rest) = true ->
  do_attrs g (RNs pre) rest = OK (RNs (pre ++ rest), []).
Proof.
  intros g. induction rest as [|a rest IH]; intros pre Hpre H; simpl.
  - rewrite app_nil_r. reflexivity.
  - assert (Hq : ns_exists (r_enums g) (pre ++ [a]) = true).
    { eapply ns_exists_prefix; [destruct pre; discriminate| |exact H].
      replace (pre ++ a :: rest) with ((pre ++ [a]) ++ rest) by (rewrite <- app_assoc; reflexivity).
      apply is_prefix_app. }
    rewrite Hq. simpl.
    rewrite IH; [|destruct pre; discriminate|rewrite <- app_assoc; exact H].
    simpl. rewrite <- app_assoc. reflexivity.
Qed.

Lemma enum_resolve_lemma : forall g id rest n d v,
  find_enum (r_enums g) (id :: rest) n = Some d ->
  ns_exists (r_enums g) ((id :: rest) ++ [n]) = false ->
  mem_str v (en_values d) = true ->
  do_arg g (AName id (rest ++ [n; v])) = OK (value_as_cpp d v, []).
Proof.
  intros g id rest n d v Hf Hsh Hv.
  assert (Hns : ns_exists (r_enums g) (id :: rest) = true) by (eapply ns_exists_of_enum; [discriminate|eassumption]).
  unfold do_arg.
  assert (Htop : ns_exists (r_enums g) [id] = true).
  { eapply ns_exists_prefix; [discriminate| |exact Hns]. simpl. rewrite String.eqb_refl. reflexivity. }
  rewrite Htop.
  assert (Hgen : forall l1 l2 r0, do_attrs g r0 (l1 ++ l2) =
            (do '(r1, w1) <- do_attrs g r0 l1; do '(r2, w2) <- do_attrs g r1 l2; OK (r2, w1 ++ w2))).
  { induction l1; intros l2 r0; simpl.
    - destruct (do_attrs g r0 l2) as [[r2 w2]|]; reflexivity.
    - destruct (do_attr g r0 a) as [[r1 w1]|]; simpl; [|reflexivity].
      rewrite IHl1. destruct (do_attrs g r1 l1) as [[r1' w1']|]; simpl; [|reflexivity].
      destruct (do_attrs g r1' l2) as [[r2 w2]|]; simpl; [|reflexivity]. rewrite app_assoc. reflexivity. }
  rewrite Hgen. rewrite (walk_namespaces g rest [id]); [|discriminate|exact Hns]. simpl.
  change ([id] ++ rest) with (id :: rest).
  simpl in Hsh. rewrite Hsh. rewrite Hf. simpl. rewrite Hv. reflexivity.
Qed.

(* ========================================================================================== *)
(* 6. uses of declared types: calls, attributes, indexing, iteration, columns                 *)
(* ========================================================================================== *)
(* the type-level reading of one step: what the declarations say the result type is *)
Definition lookup_or_double (g : registry) (recv : terminal) (m : string) : result minfo :=
  do x <- determine_type_mf (r_methods g) recv m; OK (fst x).

Lemma do_call_shape : forall g e t k m args r w,
  do_call g (RVal e t k) m args = OK (r, w) ->
  exists i w1 ss w2,
    determine_type_mf (r_methods g) (view t) m = OK (i, w1) /\
    do_args g args = OK (ss, w2) /\ w = w1 ++ w2 /\
    r = RVal (render_acc e (synth (mi_deref i + Z.of_nat (t_depth (view t)))) +++ m +++ "(" +++ join_str "," ss +++ ")")
             (mi_type i) (if is_coll (mi_type i) then KColl else KValue).
Proof.
  intros g e t k m args r w H. unfold do_call, bind in H.
  destruct (determine_type_mf (r_methods g) (view t) m) as [[i w1]|] eqn:D; [|discriminate].
  destruct (do_args g args) as [[ss w2]|] eqn:A; [|discriminate].
  inversion H; subst. exists i, w1, ss, w2. rewrite member_access_render. auto.
Qed.

Lemma do_attr_value_shape : forall g e t k a r w,
  do_attr g (RVal e t k) a = OK (r, w) ->
  k <> KEnumVal /\
  exists i, determine_type_mf (r_methods g) (view t) a = OK (i, w) /\
    r = RVal (render_acc e (synth (mi_deref i + Z.of_nat (t_depth (view t)))) +++ a) (mi_type i) KValue.
Proof.
  intros g e t k a r w H. destruct k; simpl in H; try discriminate; (split; [discriminate|]);
    unfold bind in H;
    destruct (determine_type_mf (r_methods g) (view t) a) as [[i w1]|] eqn:D; try discriminate;
    inversion H; subst; exists i; rewrite member_access_render; auto.
Qed.

Lemma enum_value_no_attr : forall g e t a, do_attr g (RVal e t KEnumVal) a = Error ErrValue.
Proof. reflexivity. Qed.

(* a representation tagged as a collection has a collection type *)
Definition rep_wf (r : rep) : Prop :=
  match r with RVal _ t KColl => is_coll t = true | _ => True end.

Lemma do_step_wf : forall g r s r' w, rep_wf r -> do_step g r s = OK (r', w) -> rep_wf r'.
Proof.
  intros g r s r' w Hwf H.
  destruct s as [m args|a|k];
    [change (do_call g r m args = OK (r', w)) in H
    |change (do_attr g r a = OK (r', w)) in H
    |change (do_index r k = OK (r', w)) in H].
  - destruct r as [e t k| |]; try (simpl in H; discriminate).
    apply do_call_shape in H as (i & w1 & ss & w2 & _ & _ & _ & ->). simpl.
    destruct (is_coll (mi_type i)); [reflexivity|exact I].
  - destruct r as [e t k|p|d].
    + apply do_attr_value_shape in H as [_ [i [_ ->]]]. exact I.
    + simpl in H. destruct (ns_exists (r_enums g) (p ++ [a])); [inversion H; exact I|].
      destruct (find_enum (r_enums g) p a); inversion H; exact I.
    + simpl in H. destruct (mem_str a (en_values d)); inversion H; exact I.
  - destruct r as [e t k0| |]; simpl in H; try discriminate.
    destruct t; try discriminate; destruct k0; try discriminate. inversion H; exact I.
Qed.

Lemma do_steps_wf : forall g l r r' w, rep_wf r -> do_steps g r l = OK (r', w) -> rep_wf r'.
Proof.
  intros g. induction l as [|s l IH]; intros r r' w Hwf H; simpl in H.
  - inversion H; subst. assumption.
  - unfold bind in H. destruct (do_step g r s) as [[r1 w1]|] eqn:E; [|discriminate].
    destruct (do_steps g r1 l) as [[r2 w2]|] eqn:E2; [|discriminate].
    inversion H; subst. eapply IH; [eapply do_step_wf; eassumption|eassumption].
Qed.

(* indexing: only collections, element type, access through the full pointer depth of the collection *)
Lemma do_index_shape : forall r k r' w,
  do_index r k = OK (r', w) ->
  exists e a el, r = RVal e (TColl a el) KColl /\ w = [] /\
    r' = RVal (render_acc e (synth (Z.of_nat (t_depth a))) +++ "at(" +++ k +++ ")") (TTerm el) KValue.
Proof.
  intros r k r' w H. destruct r as [e t k0| |]; simpl in H; try discriminate.
  destruct t as [|a el]; try discriminate; destruct k0; try discriminate.
  inversion H; subst. exists e, a, el. rewrite member_access_render. simpl. auto.
Qed.

(* iteration: only collections, iterator typed with the element type, one dereference iff a pointer *)
Lemma do_iter_shape : forall r it h r',
  do_iter r it = OK (h, r') ->
  exists e a el, r = RVal e (TColl a el) KColl /\
    r' = RVal it (TTerm el) KValue /\
    h = "for (auto &&" +++ it +++ " : " +++ (match t_depth a with O => e | S _ => "*" +++ e end) +++ ")".
Proof.
  intros r it h r' H. destruct r as [e t k0| |]; simpl in H; try discriminate.
  destruct t as [|a el]; try discriminate; destruct k0; try discriminate.
  inversion H; subst. exists e, a, el. auto.
Qed.

(* the warnings of a chain are exactly fallback warnings for lookups that found nothing *)
Definition is_fallback_warning (g : registry) (w : string) : Prop :=
  exists ty m, w = warn_text ty m /\ method_type_info (r_methods g) ty m = None /\ mem_str ty base_types = false.

Lemma determine_warnings : forall g t m i w,
  determine_type_mf (r_methods g) t m = OK (i, w) ->
  (method_type_info (r_methods g) (t_type t) m = Some i /\ w = []) \/
  (method_type_info (r_methods g) (t_type t) m = None /\ mem_str (t_type t) base_types = false /\
   i = double0 /\ w = [warn_text (t_type t) m]).
Proof.
  intros g t m i w H. unfold determine_type_mf in H.
  destruct (method_type_info (r_methods g) (t_type t) m) eqn:L.
  - inversion H; subst. left. auto.
  - destruct (mem_str (t_type t) base_types) eqn:B; [discriminate|]. inversion H; subst. right. auto.
Qed.

Lemma do_attrs_ns_no_warn : forall g l r r' w,
  (match r with RVal _ _ _ => False | _ => True end) ->
  do_attrs g r l = OK (r', w) -> Forall (is_fallback_warning g) w.
Proof.
  intros g. induction l as [|a l IH]; intros r r' w Hr H; simpl in H.
  - inversion H; subst. constructor.
  - unfold bind in H. destruct (do_attr g r a) as [[r1 w1]|] eqn:E; [|discriminate].
    destruct (do_attrs g r1 l) as [[r2 w2]|] eqn:E2; [|discriminate]. inversion H; subst.
    destruct r as [e t k|p|d]; [contradiction| |].
    + simpl in E. destruct (ns_exists (r_enums g) (p ++ [a])).
      * inversion E; subst. simpl. eapply IH; [|eassumption]. exact I.
      * destruct (find_enum (r_enums g) p a); inversion E; subst. simpl. eapply IH; [|eassumption]. exact I.
    + simpl in E. destruct (mem_str a (en_values d)); inversion E; subst. simpl.
      (* an enum value: any further attribute is refused *)
      destruct l as [|b l']; simpl in E2.
      * inversion E2; subst. constructor.
      * discriminate.
Qed.

Lemma do_args_warnings : forall g l ss w, do_args g l = OK (ss, w) -> Forall (is_fallback_warning g) w.
Proof.
  intros g. induction l as [|a l IH]; intros ss w H; simpl in H.
  - inversion H; subst. constructor.
  - unfold bind in H. destruct (do_arg g a) as [[s w1]|] eqn:E; [|discriminate].
    destruct (do_args g l) as [[ss' w2]|] eqn:E2; [|discriminate]. inversion H; subst.
    apply Forall_app. split; [|eapply IH; reflexivity].
    destruct a as [s0|id attrs]; [simpl in E|unfold do_arg in E].
    + inversion E; subst. constructor.
    + destruct (ns_exists (r_enums g) [id]); [|discriminate]. unfold bind in E.
      destruct (do_attrs g (RNs [id]) attrs) as [[r1 w1']|] eqn:E3; [|discriminate].
      destruct (rep_as_cpp r1); [|discriminate]. inversion E; subst.
      eapply do_attrs_ns_no_warn; [|eassumption]. exact I.
Qed.

Lemma do_step_warnings : forall g r s r' w, do_step g r s = OK (r', w) -> Forall (is_fallback_warning g) w.
Proof.
  intros g r s r' w H.
  destruct s as [m args|a|k];
    [change (do_call g r m args = OK (r', w)) in H
    |change (do_attr g r a = OK (r', w)) in H
    |change (do_index r k = OK (r', w)) in H].
  - destruct r as [e t k| |]; try (simpl in H; discriminate).
    apply do_call_shape in H as (i & w1 & ss & w2 & D & A & -> & _).
    apply Forall_app. split; [|eapply do_args_warnings; eassumption].
    apply determine_warnings in D as [[_ ->]|(L & B & _ & ->)]; [constructor|].
    constructor; [|constructor]. exists (t_type (view t)), m. auto.
  - destruct r as [e t k|p|d].
    + apply do_attr_value_shape in H as [_ [i [D _]]].
      apply determine_warnings in D as [[_ ->]|(L & B & _ & ->)]; [constructor|].
      constructor; [|constructor]. exists (t_type (view t)), a. auto.
    + simpl in H. destruct (ns_exists (r_enums g) (p ++ [a])); [inversion H; constructor|].
      destruct (find_enum (r_enums g) p a); inversion H; constructor.
    + simpl in H. destruct (mem_str a (en_values d)); inversion H; constructor.
  - apply do_index_shape in H as (e & a & el & _ & -> & _). constructor.
Qed.

Lemma do_steps_warnings : forall g l r r' w, do_steps g r l = OK (r', w) -> Forall (is_fallback_warning g) w.
Proof.
  intros g. induction l as [|s l IH]; intros r r' w H; simpl in H.
  - inversion H; subst. constructor.
  - unfold bind in H. destruct (do_step g r s) as [[r1 w1]|] eqn:E; [|discriminate].
    destruct (do_steps g r1 l) as [[r2 w2]|] eqn:E2; [|discriminate]. inversion H; subst.
    apply Forall_app. split; [eapply do_step_warnings; eassumption|eapply IH; eassumption].
Qed.

(* columns *)
Lemma column_value_decl : forall e t,
  fst (column_value e t) =
    (if t_const (view t) then "const " else "") +++
    (match t_tree (view t) with Some tr => tr | None => t_type (view t) end) +++ stars (t_depth (view t)).
Proof.
  intros e t. unfold column_value, tree_type, str_terminal. destruct (t_tree (view t)); reflexivity.
Qed.

Lemma column_value_stmt : forall e t,
  snd (column_value e t) =
    match t_tree (view t) with
    | Some tr => if String.eqb tr (t_type (view t)) then "COL = " +++ e +++ ";"
                 else "COL = static_cast<" +++ tr +++ ">(" +++ e +++ ");"
    | None => "COL = " +++ e +++ ";"
    end.
Proof.
  intros e t. unfold column_value, tree_type. destruct (t_tree (view t)); simpl; [reflexivity|].
  rewrite String.eqb_refl. reflexivity.
Qed.

Lemma column_vector_decl : forall e t,
  fst (column_vector e t) =
    "std::vector<" +++ (if t_const (view t) then "const " else "") +++
    (match t_tree (view t) with Some tr => tr | None => t_type (view t) end) +++ stars (t_depth (view t)) +++ ">".
Proof.
  intros e t. unfold column_vector, vector_of, tree_type, str_terminal, view, mk_term; simpl.
  destruct t as [x|a el]; simpl; destruct (t_tree _); simpl; rewrite ?str_app_nil_r, ?str_app_assoc; reflexivity.
Qed.

(* a declared value method used as the column: the column carries the declared (tree) type *)
Lemma declared_column : forall md rt e,
  md_return_type md = Some rt ->
  exists i, info_of md = Some i /\
    fst (column_value e (mi_type i)) =
      (match md_tree md with Some tr => tr | None => p_name (parse_type rt) end) +++ stars (p_depth (parse_type rt)).
Proof.
  intros md rt e H. rewrite (info_of_value md rt H). eexists. split; [reflexivity|].
  rewrite column_value_decl. simpl. reflexivity.
Qed.

(* whole queries: every logged warning is a fallback warning for an undeclared method *)
Lemma do_levels_warnings : forall g ls r n r' n' hs w,
  do_levels g r n ls = OK (r', n', hs, w) -> Forall (is_fallback_warning g) w.
Proof.
  intros g. induction ls as [|l ls IH]; intros r n r' n' hs w H; simpl in H.
  - inversion H; subst. constructor.
  - unfold bind in H. destruct (do_steps g r l) as [[r1 w1]|] eqn:E1; [|discriminate].
    destruct (do_iter r1 (it_name n)) as [[h r2]|] eqn:E2; [|discriminate].
    destruct (do_levels g r2 (S n) ls) as [[[[r3 n3] hs3] w3]|] eqn:E3; [|discriminate].
    inversion H; subst. apply Forall_app. split; [eapply do_steps_warnings; eassumption|eapply IH; eassumption].
Qed.

Lemma translate_warnings : forall g root p out,
  translate g root p = OK out -> Forall (is_fallback_warning g) (em_warn out).
Proof.
  intros g root p out H. unfold translate, bind in H.
  destruct (do_levels g root 0 (pg_levels p)) as [[[[r1 n] hs] w1]|] eqn:E1; [|discriminate].
  destruct (do_steps g r1 (pg_last p)) as [[r2 w2]|] eqn:E2; [|discriminate].
  pose proof (do_levels_warnings _ _ _ _ _ _ _ _ E1) as W1.
  pose proof (do_steps_warnings _ _ _ _ _ E2) as W2.
  destruct (pg_vec p) as [inner|].
  - destruct (do_iter r2 (it_name n)) as [[h r3]|] eqn:E3; [|discriminate].
    destruct (do_steps g r3 inner) as [[r4 w3]|] eqn:E4; [|discriminate].
    pose proof (do_steps_warnings _ _ _ _ _ E4) as W3.
    destruct r4 as [e t k| |]; try discriminate.
    destruct (column_vector e t) as [d s]. inversion H; subst. simpl.
    apply Forall_app. split; [assumption|]. apply Forall_app. split; assumption.
  - destruct r2 as [e t k| |]; try discriminate.
    destruct (column_value e t) as [d s]. inversion H; subst. simpl.
    apply Forall_app. split; assumption.
Qed.

(* known finding: a pointer-valued method with a tree type used as the column: declared `double**`, stored
   through a cast to the bare name `double` *)
Lemma pointer_column_store_witness :
  exists e t,
    (0 < t_depth (view t))%nat /\
    column_value e t = ("double**", "COL = static_cast<double>(" +++ e +++ ");").
Proof.
  exists "r->m0()", (TTerm {| t_type := "float"; t_depth := 2; t_const := false; t_tree := Some "double" |}).
  split; [simpl; lia|vm_compute; reflexivity].
Qed.
