(* Proofs about Model/TreeSchema.v: names, order, class variables, types, count mismatch, descriptor. *)
From FV Require Import Base.Prelude Model.TreeSchema.
From Coq Require Import Lia NArith Nnat ZArith.

(* ------------------------------------------------------------------------------------------ *)
(* decimal printing                                                                             *)
(* ------------------------------------------------------------------------------------------ *)
Lemma digit_char_parse : forall d acc a, (d < 10)%nat ->
  parse_N_acc (String (digit_char d) acc) a = parse_N_acc acc (a * 10 + N.of_nat d)%N.
Proof. intros d acc a Hd. do 10 (destruct d as [|d]; [reflexivity|]). lia. Qed.

Lemma parse_dec_fuel : forall f n acc, (n < 2 ^ N.of_nat f)%N ->
  exists m, forall a, parse_N_acc (dec_N_fuel (S f) n acc) a = parse_N_acc acc (a * m + n)%N.
Proof.
  induction f as [|f IH]; intros n acc Hn.
  - assert (n = 0%N) by (simpl in Hn; lia). subst. exists 10%N. intros a. simpl.
    rewrite N.add_0_r. reflexivity.
  - pose proof (N.div_mod n 10 ltac:(lia)) as Hdm.
    pose proof (N.mod_lt n 10 ltac:(lia)) as Hlt.
    cbn [dec_N_fuel].
    destruct (N.eqb (n / 10) 0) eqn:Eq.
    + apply N.eqb_eq in Eq. exists 10%N. intros a. rewrite digit_char_parse by lia.
      f_equal. rewrite N2Nat.id. lia.
    + apply N.eqb_neq in Eq.
      assert (Hq : (n / 10 < 2 ^ N.of_nat f)%N).
      { rewrite Nat2N.inj_succ, N.pow_succ_r' in Hn.
        remember (2 ^ N.of_nat f)%N as t. remember (n / 10)%N as q. remember (n mod 10)%N as r.
        clear - Hn Hdm Hlt. lia. }
      destruct (IH (n / 10)%N (String (digit_char (N.to_nat (n mod 10))) acc) Hq) as (m & Hm).
      exists (m * 10)%N. intros a. rewrite Hm. rewrite digit_char_parse by lia.
      f_equal. rewrite N2Nat.id. lia.
Qed.

Lemma parse_dec_N : forall n, parse_N_acc (dec_N n) 0 = Some n.
Proof.
  intros n. unfold dec_N.
  destruct (parse_dec_fuel (N.to_nat (N.size n)) n EmptyString) as (m & Hm).
  - rewrite N2Nat.id. apply N.size_gt.
  - rewrite Hm. reflexivity.
Qed.

Lemma dec_nat_inj : forall a b, dec_nat a = dec_nat b -> a = b.
Proof.
  intros a b H. unfold dec_nat in H.
  assert (H0 : Some (N.of_nat a) = Some (N.of_nat b)) by (rewrite <- !parse_dec_N; now rewrite H).
  injection H0 as H0. now apply Nat2N.inj.
Qed.

Fixpoint all_digits (s : string) : bool :=
  match s with EmptyString => true | String c r => is_digit c && all_digits r end.
(* the last character is a decimal digit *)
Fixpoint last_digit (s : string) : bool :=
  match s with
  | EmptyString => false
  | String c EmptyString => is_digit c
  | String _ r => last_digit r
  end.

Lemma is_digit_digit_char : forall d, (d < 10)%nat -> is_digit (digit_char d) = true.
Proof. intros d Hd. do 10 (destruct d as [|d]; [reflexivity|]). lia. Qed.

Lemma dec_fuel_digits : forall f n acc, all_digits acc = true -> all_digits (dec_N_fuel f n acc) = true.
Proof.
  induction f as [|f IH]; intros n acc Ha; cbn [dec_N_fuel]; [exact Ha|].
  pose proof (N.mod_lt n 10 ltac:(lia)) as Hlt.
  assert (Hd : all_digits (String (digit_char (N.to_nat (n mod 10))) acc) = true).
  { cbn [all_digits]. rewrite is_digit_digit_char by lia. exact Ha. }
  destruct (N.eqb (n / 10) 0); [exact Hd|apply IH; exact Hd].
Qed.

Lemma dec_nat_digits : forall n, all_digits (dec_nat n) = true.
Proof. intros n. unfold dec_nat, dec_N. apply dec_fuel_digits. reflexivity. Qed.

Lemma str_app_assoc : forall a b c : string, (a +++ b) +++ c = a +++ (b +++ c).
Proof. induction a; intros; simpl; [reflexivity|f_equal; auto]. Qed.

Lemma str_app_nil_r : forall a : string, a +++ "" = a.
Proof. induction a; simpl; [reflexivity|f_equal; auto]. Qed.

Lemma str_app_inv_head : forall a b c : string, a +++ b = a +++ c -> b = c.
Proof. induction a; intros b c H; simpl in H; [exact H|inversion H; auto]. Qed.

Lemma app_eq_split : forall s1 d1 s2 d2 : string, s1 +++ d1 = s2 +++ d2 ->
  (exists x, s2 = s1 +++ x /\ d1 = x +++ d2) \/ (exists x, s1 = s2 +++ x /\ d2 = x +++ d1).
Proof.
  induction s1 as [|c s1 IH]; intros d1 s2 d2 H; simpl in H.
  - left. exists s2. split; [reflexivity|exact H].
  - destruct s2 as [|c2 s2]; simpl in H.
    + right. exists (String c s1). split; [reflexivity|]. simpl. symmetry. exact H.
    + inversion H as [[Hc Hr]]. destruct (IH _ _ _ Hr) as [(x & Hx & Hd)|(x & Hx & Hd)].
      * left. exists x. simpl. split; [f_equal; exact Hx|exact Hd].
      * right. exists x. simpl. split; [f_equal; exact Hx|exact Hd].
Qed.

Lemma all_digits_prefix : forall x d, all_digits (x +++ d) = true -> all_digits x = true.
Proof.
  induction x as [|c x IH]; intros d H; simpl in *; [reflexivity|].
  apply andb_true_iff in H. destruct H as [Hc Hr]. rewrite Hc. simpl. eapply IH; eauto.
Qed.

Lemma all_digits_last : forall x, x <> "" -> all_digits x = true -> last_digit x = true.
Proof.
  induction x as [|c x IH]; intros Hne H; [contradiction|]. simpl in H.
  apply andb_true_iff in H. destruct H as [Hc Hr]. destruct x as [|c2 x]; [exact Hc|].
  change (last_digit (String c (String c2 x))) with (last_digit (String c2 x)). apply IH; [discriminate|exact Hr].
Qed.

Lemma last_digit_app : forall s x, x <> "" -> last_digit (s +++ x) = last_digit x.
Proof.
  induction s as [|c s IH]; intros x Hne; simpl; [reflexivity|].
  destruct (s +++ x) eqn:E.
  - destruct s; destruct x; simpl in E; try discriminate. contradiction.
  - rewrite <- E. apply IH. exact Hne.
Qed.

(* two names that do not end in a digit, followed by decimal numbers: equal texts have equal parts *)
Lemma name_index_split : forall s1 s2 a b,
  last_digit s1 = false -> last_digit s2 = false ->
  s1 +++ dec_nat a = s2 +++ dec_nat b -> s1 = s2 /\ a = b.
Proof.
  intros s1 s2 a b H1 H2 H.
  destruct (app_eq_split _ _ _ _ H) as [(x & Hx & Hd)|(x & Hx & Hd)].
  - destruct x as [|c x].
    + rewrite str_app_nil_r in Hx. subst. split; [reflexivity|]. apply dec_nat_inj. exact Hd.
    + exfalso. assert (Hl : last_digit s2 = true).
      { rewrite Hx. rewrite last_digit_app by discriminate. apply all_digits_last; [discriminate|].
        eapply all_digits_prefix. rewrite <- Hd. apply dec_nat_digits. }
      congruence.
  - destruct x as [|c x].
    + rewrite str_app_nil_r in Hx. subst. split; [reflexivity|]. symmetry. apply dec_nat_inj. exact Hd.
    + exfalso. assert (Hl : last_digit s1 = true).
      { rewrite Hx. rewrite last_digit_app by discriminate. apply all_digits_last; [discriminate|].
        eapply all_digits_prefix. rewrite <- Hd. apply dec_nat_digits. }
      congruence.
Qed.

(* "_" ++ name ends in a digit exactly when the name does *)
Lemma last_digit_underscore : forall n, last_digit ("_" +++ n) = last_digit n.
Proof. intros n. destruct n; reflexivity. Qed.

(* the sanitised name ends in a digit only if the name does *)
Lemma last_digit_snoc : forall p c, last_digit (p +++ String c "") = is_digit c.
Proof. intros p c. rewrite last_digit_app by discriminate. reflexivity. Qed.

Lemma last_digit_tail : forall c r, last_digit (String c r) = false -> last_digit r = false.
Proof. intros c r H. destruct r as [|c2 r]; [reflexivity|exact H]. Qed.

Lemma is_digit_ident : forall c, is_digit c = false -> is_digit (if ident_char c then c else "_"%char) = false.
Proof. intros c H. destruct (ident_char c); [exact H|reflexivity]. Qed.

Lemma cident_aux_last : forall s b p,
  (b = true -> last_digit p = false) -> (s = "" -> last_digit p = false) -> last_digit s = false ->
  last_digit (p +++ cident_aux b s) = false.
Proof.
  induction s as [|c r IH]; intros b p Hb He Hs; cbn [cident_aux].
  - rewrite str_app_nil_r. apply He. reflexivity.
  - pose proof (last_digit_tail c r Hs) as Hr.
    assert (Hc : r = "" -> is_digit c = false) by (intro E; subst r; exact Hs).
    destruct (nat_of_ascii c <? 128)%nat.
    + replace (p +++ String (if ident_char c then c else "_"%char) (cident_aux false r))
        with ((p +++ String (if ident_char c then c else "_"%char) "") +++ cident_aux false r)
        by (rewrite str_app_assoc; reflexivity).
      apply IH; [discriminate| |exact Hr].
      intro E. rewrite last_digit_snoc. apply is_digit_ident, Hc, E.
    + destruct (nat_of_ascii c <? 192)%nat.
      * destruct b.
        -- apply IH; [intros _; apply Hb; reflexivity|intros _; apply Hb; reflexivity|exact Hr].
        -- replace (p +++ String "_"%char (cident_aux false r)) with ((p +++ String "_"%char "") +++ cident_aux false r)
             by (rewrite str_app_assoc; reflexivity).
           apply IH; [discriminate|intros _; rewrite last_digit_snoc; reflexivity|exact Hr].
      * replace (p +++ String "_"%char (cident_aux true r)) with ((p +++ String "_"%char "") +++ cident_aux true r)
          by (rewrite str_app_assoc; reflexivity).
        apply IH; [intros _; rewrite last_digit_snoc; reflexivity|intros _; rewrite last_digit_snoc; reflexivity|exact Hr].
Qed.

Lemma last_digit_cident : forall n, last_digit n = false -> last_digit ("_" +++ cident n) = false.
Proof. intros n H. unfold cident. apply cident_aux_last; [discriminate|intros _; reflexivity|exact H]. Qed.

(* two class variables are the same text only at the same index (the sanitised names need not be equal as the labels
   are not: "a-b" and "a.b" both give _a_b) *)
Lemma unique_name_class_inj : forall n1 n2 a b,
  last_digit n1 = false -> last_digit n2 = false ->
  unique_name n1 true a = unique_name n2 true b -> a = b.
Proof.
  intros n1 n2 a b H1 H2 H. unfold unique_name in H.
  destruct (name_index_split ("_" +++ cident n1) ("_" +++ cident n2) a b) as (Hs & Hab); auto using last_digit_cident.
Qed.

(* the same name at two indices: always different variables *)
Lemma unique_name_same_inj : forall n a b, unique_name n true a = unique_name n true b -> a = b.
Proof.
  intros n a b H. unfold unique_name in H. apply str_app_inv_head in H.
  apply dec_nat_inj. exact H.
Qed.

(* ------------------------------------------------------------------------------------------ *)
(* make_columns                                                                                 *)
(* ------------------------------------------------------------------------------------------ *)
Fixpoint vars_from (names : list string) (index : nat) : list string :=
  match names with [] => [] | n :: r => unique_name n true index :: vars_from r (S index) end.

Lemma make_columns_spec : forall names cols index cs,
  List.length cols = List.length names ->
  make_columns names cols index = OK cs ->
  map c_name cs = names
  /\ map c_var cs = vars_from names index
  /\ Forall2 (fun c r => get_ttree_type r = OK (c_type c) /\ c_is_vec c = rep_is_collection r) cs cols.
Proof.
  induction names as [|n ns IH]; intros cols index cs Hlen H.
  - destruct cols; [|discriminate]. simpl in H. inversion H; subst. simpl. auto.
  - destruct cols as [|c cols]; [discriminate|]. simpl in H.
    destruct (get_ttree_type c) as [t|e] eqn:Et; [|discriminate].
    destruct (make_columns ns cols (S index)) as [r|e] eqn:Er; [|discriminate].
    inversion H; subst. clear H. simpl in Hlen. injection Hlen as Hlen.
    destruct (IH cols (S index) r Hlen Er) as (Hn & Hv & Ht).
    simpl. rewrite Hn, Hv. split; [reflexivity|]. split; [reflexivity|]. constructor; auto.
Qed.

Lemma make_columns_error : forall names cols index e,
  List.length cols = List.length names ->
  make_columns names cols index = Error e ->
  exists c, In c cols /\ get_ttree_type c = Error e.
Proof.
  induction names as [|n ns IH]; intros cols index e Hlen H.
  - destruct cols; simpl in H; discriminate.
  - destruct cols as [|c cols]; [discriminate|]. simpl in H.
    destruct (get_ttree_type c) as [t|e'] eqn:Et.
    + destruct (make_columns ns cols (S index)) as [r|e''] eqn:Er; [discriminate|].
      inversion H; subst. simpl in Hlen. injection Hlen as Hlen.
      destruct (IH cols (S index) e Hlen Er) as (c' & Hin & Hc'). exists c'. split; [right; exact Hin|exact Hc'].
    + inversion H; subst. exists c. split; [left; reflexivity|exact Et].
Qed.

Lemma vars_from_in : forall names index v, In v (vars_from names index) ->
  exists n k, In n names /\ index <= k /\ v = unique_name n true k.
Proof.
  induction names as [|n r IH]; intros index v H; simpl in H; [contradiction|].
  destruct H as [H|H].
  - exists n, index. split; [left; reflexivity|]. split; [lia|auto].
  - destruct (IH _ _ H) as (n' & k & Hn & Hk & Hv). exists n', k. split; [right; exact Hn|]. split; [lia|exact Hv].
Qed.

(* distinct indices give distinct class variables when no name ends in a decimal digit *)
Lemma vars_from_NoDup : forall names index,
  (forall n, In n names -> last_digit n = false) -> NoDup (vars_from names index).
Proof.
  induction names as [|n r IH]; intros index Hn; simpl; constructor.
  - intros Hin. destruct (vars_from_in _ _ _ Hin) as (n' & k & Hn' & Hk & Hv).
    assert (E : index = k).
    { apply (unique_name_class_inj n n' index k); [apply Hn; left; reflexivity|apply Hn; right; exact Hn'|exact Hv]. }
    lia.
  - apply IH. intros n' Hn'. apply Hn. right. exact Hn'.
Qed.

(* all names equal (e.g. duplicated given names): still distinct variables *)
Lemma vars_from_NoDup_same : forall n k index, NoDup (vars_from (repeat n k) index).
Proof.
  intros n k. induction k as [|k IH]; intros index; simpl; constructor.
  - intros Hin. destruct (vars_from_in _ _ _ Hin) as (n' & j & Hn' & Hj & Hv).
    apply repeat_spec in Hn'. subst n'. apply unique_name_same_inj in Hv. lia.
  - apply IH.
Qed.

(* ... but not in general: a name that extends another by digits can collide with it *)
Lemma vars_from_collision :
  exists names index, NoDup names /\ ~ NoDup (vars_from names index).
Proof.
  exists ["a1"; "b"; "c"; "d"; "e"; "f"; "g"; "h"; "i"; "j"; "a"], 2.
  split.
  - repeat (constructor; [simpl; intuition discriminate|]). constructor.
  - intros H. inversion H as [|x l Hnin Hnd]; subst. apply Hnin. vm_compute. do 9 right. left. reflexivity.
Qed.

(* ------------------------------------------------------------------------------------------ *)
(* default names                                                                                *)
(* ------------------------------------------------------------------------------------------ *)
Lemma default_names_from_length : forall n i, List.length (default_names_from i n) = n.
Proof. induction n; intros; simpl; auto. Qed.

Lemma default_names_from_in : forall n i x, In x (default_names_from i n) ->
  exists k, i <= k /\ x = "col" +++ dec_nat k.
Proof.
  induction n as [|n IH]; intros i x H; simpl in H; [contradiction|].
  destruct H as [H|H]; [exists i; split; [lia|auto]|].
  destruct (IH _ _ H) as (k & Hk & Hx). exists k. split; [lia|exact Hx].
Qed.

Lemma default_names_NoDup : forall n, NoDup (default_names n).
Proof.
  intros n. unfold default_names. generalize 0. induction n as [|n IH]; intros i; simpl; constructor.
  - intros H. destruct (default_names_from_in _ _ _ H) as (k & Hk & Hx).
    cbn [String.append] in Hx. inversion Hx as [Hd]. apply dec_nat_inj in Hd. lia.
  - apply IH.
Qed.

(* ------------------------------------------------------------------------------------------ *)
(* the lowering                                                                                 *)
(* ------------------------------------------------------------------------------------------ *)
Lemma get_as_ROOT_spec : forall b t r tc,
  get_as_ROOT b t r = OK tc ->
  extract_column_names (tc_names tc) = expected_names t r
  /\ tc_tree tc = expected_tree b t
  /\ tc_cols tc = final_columns t r.
Proof.
  intros b t r tc H. destruct t as [|names tree]; simpl in H.
  - destruct r as [items|cols|c]; try (inversion H; subst; simpl; auto; fail).
    destruct c; inversion H; subst; simpl; auto.
  - inversion H; subst. simpl. destruct r; auto.
Qed.

Lemma call_ResultTTree_ok : forall b index tc s,
  call_ResultTTree b index tc = OK s ->
  List.length (tc_cols tc) = List.length (extract_column_names (tc_names tc))
  /\ sc_tree s = tc_tree tc
  /\ map c_name (sc_columns s) = extract_column_names (tc_names tc)
  /\ map c_var (sc_columns s) = vars_from (extract_column_names (tc_names tc)) index
  /\ Forall2 (fun c r => get_ttree_type r = OK (c_type c) /\ c_is_vec c = rep_is_collection r) (sc_columns s) (tc_cols tc)
  /\ sc_class_decl s = map (fun c => c_type c +++ " " +++ c_var c +++ ";") (sc_columns s)
  /\ sc_book s = firstn 2 (sc_book s) ++ map branch_line (sc_columns s)
  /\ sc_fill s = fill_emit b (tc_tree tc)
  /\ sc_descr s = (descriptor_file, tc_tree tc).
Proof.
  intros b index tc s H. unfold call_ResultTTree in H.
  destruct (Nat.eqb (List.length (tc_cols tc)) (List.length (extract_column_names (tc_names tc)))) eqn:El;
    simpl in H; [|discriminate].
  apply Nat.eqb_eq in El.
  destruct (make_columns _ _ _) as [cs|e] eqn:Em; [|discriminate].
  destruct (fill_assert (tc_cols tc)); [|discriminate]. inversion H; subst. clear H. simpl.
  destruct (make_columns_spec _ _ _ _ El Em) as (Hn & Hv & Ht).
  repeat split; auto. destruct b; reflexivity.
Qed.

Lemma call_ResultTTree_mismatch : forall b index tc,
  List.length (tc_cols tc) <> List.length (extract_column_names (tc_names tc)) ->
  call_ResultTTree b index tc = Error ErrRuntime.
Proof.
  intros b index tc H. unfold call_ResultTTree. apply Nat.eqb_neq in H. rewrite H. reflexivity.
Qed.

(* main schema lemma *)
Lemma schema_spec : forall b index t r s,
  translate_terminal b index t r = OK s ->
  map c_name (sc_columns s) = expected_names t r
  /\ sc_tree s = expected_tree b t
  /\ map c_var (sc_columns s) = vars_from (expected_names t r) index
  /\ Forall2 (fun c rep => get_ttree_type rep = OK (c_type c) /\ c_is_vec c = rep_is_collection rep)
             (sc_columns s) (final_columns t r)
  /\ sc_class_decl s = map (fun c => c_type c +++ " " +++ c_var c +++ ";") (sc_columns s)
  /\ sc_book s = firstn 2 (sc_book s) ++ map branch_line (sc_columns s)
  /\ sc_fill s = fill_emit b (expected_tree b t)
  /\ sc_descr s = (descriptor_file, expected_tree b t).
Proof.
  intros b index t r s H. unfold translate_terminal in H.
  destruct (get_as_ROOT b t r) as [tc|e] eqn:Eg; [|discriminate].
  destruct (get_as_ROOT_spec _ _ _ _ Eg) as (Hn & Ht & Hc).
  destruct (call_ResultTTree_ok _ _ _ _ H) as (_ & H1 & H2 & H3 & H4 & H5 & H6 & H7 & H8).
  rewrite Hn in *. rewrite Ht in *. rewrite Hc in *. repeat split; auto.
Qed.

Lemma schema_count : forall b index t r s,
  translate_terminal b index t r = OK s ->
  List.length (final_columns t r) = List.length (expected_names t r).
Proof.
  intros b index t r s H. unfold translate_terminal in H.
  destruct (get_as_ROOT b t r) as [tc|e] eqn:Eg; [|discriminate].
  destruct (get_as_ROOT_spec _ _ _ _ Eg) as (Hn & Ht & Hc).
  destruct (call_ResultTTree_ok _ _ _ _ H) as (Hl & _). rewrite Hn, Hc in Hl. exact Hl.
Qed.

Lemma schema_mismatch : forall b index names tree r,
  List.length (row_columns_explicit r) <> List.length (extract_column_names names) ->
  translate_terminal b index (TExplicit names tree) r = Error ErrRuntime.
Proof.
  intros b index names tree r H. unfold translate_terminal. simpl. apply call_ResultTTree_mismatch. exact H.
Qed.

(* the implicit forms never mismatch: the defaults are made to measure *)
Lemma implicit_count : forall b r tc,
  get_as_ROOT b TImplicit r = OK tc ->
  List.length (tc_cols tc) = List.length (extract_column_names (tc_names tc)).
Proof.
  intros b r tc H. simpl in H. destruct r as [items|cols|c].
  - inversion H; subst. simpl. rewrite !map_length. reflexivity.
  - inversion H; subst. simpl. unfold default_names. rewrite default_names_from_length. reflexivity.
  - destruct c; inversion H; subst; reflexivity.
Qed.

(* class variables pairwise distinct *)
Lemma schema_vars_distinct : forall b index t r s,
  translate_terminal b index t r = OK s ->
  (forall n, In n (expected_names t r) -> last_digit n = false) ->
  NoDup (map c_var (sc_columns s)).
Proof.
  intros b index t r s H Hn. destruct (schema_spec _ _ _ _ _ H) as (_ & _ & Hv & _).
  rewrite Hv. apply vars_from_NoDup. exact Hn.
Qed.

Lemma schema_vars_collide : exists b index t r s,
  translate_terminal b index t r = OK s /\ NoDup (expected_names t r) /\ ~ NoDup (map c_var (sc_columns s)).
Proof.
  exists BeAtlas, 2,
    (TExplicit (NList ["a1"; "b"; "c"; "d"; "e"; "f"; "g"; "h"; "i"; "j"; "a"]) "t"),
    (RTuple (repeat (KVal "int" None) 11)).
  eexists. split; [vm_compute; reflexivity|]. split.
  - simpl. repeat (constructor; [simpl; intuition discriminate|]). constructor.
  - intros H. simpl in H. inversion H as [|x l Hnin Hnd]; subst. apply Hnin. vm_compute. do 9 right. left. reflexivity.
Qed.

(* types *)
Lemma ttree_type_value : forall ty, get_ttree_type (KVal ty None) = OK ty.
Proof. reflexivity. Qed.
Lemma ttree_type_value_declared : forall ty t, get_ttree_type (KVal ty (Some t)) = OK t.
Proof. reflexivity. Qed.
Lemma ttree_type_seq : forall ty, get_ttree_type (KSeq (KVal ty None)) = OK ("std::vector<" +++ ty +++ ">").
Proof. reflexivity. Qed.
Lemma ttree_type_seq_declared : forall ty t, get_ttree_type (KSeq (KVal ty (Some t))) = OK ("std::vector<" +++ t +++ ">").
Proof. reflexivity. Qed.
Lemma ttree_type_seq_seq : forall ty tr,
  get_ttree_type (KSeq (KSeq (KVal ty tr))) = OK ("std::vector<std::vector<" +++ ty +++ ">>").
Proof.
  intros ty tr. simpl. unfold vector_of. f_equal. simpl. f_equal. f_equal. f_equal. f_equal. f_equal. f_equal.
  f_equal. f_equal. f_equal. f_equal. f_equal. f_equal. rewrite str_app_assoc. reflexivity.
Qed.
Lemma ttree_type_nested_structure : forall top, get_ttree_type (KSeq (KStruct top)) = Error ErrRuntime.
Proof. reflexivity. Qed.
Lemma ttree_type_structure : forall top, exists e, get_ttree_type (KStruct top) = Error e.
Proof. intros [|]; eexists; reflexivity. Qed.

(* a column the translator cannot type makes the translation fail: no partially booked tree *)
Lemma schema_untypable : forall b index t r s,
  translate_terminal b index t r = OK s ->
  forall c, In c (final_columns t r) -> exists ty, get_ttree_type c = OK ty.
Proof.
  intros b index t r s H c Hin. destruct (schema_spec _ _ _ _ _ H) as (_ & _ & _ & Ht & _).
  clear H. induction Ht as [|x y l l' Hxy Hl IH]; [contradiction|].
  destruct Hin as [Hin|Hin]; [subst; destruct Hxy as (Hxy & _); eauto|auto].
Qed.
