From FV Require Import Base.Prelude Model.Shell Proofs.ShellProofs gen.Runner_atlas_r21 Proofs.Runner_atlas_r21_Proofs.
From Coq Require Import Lia.

(* ---------- worlds in which a build has succeeded ---------- *)
Definition built_base (cfg : config) (v1 v2 v3 : option string) : fs :=
  (invoke script cfg (fresh_world B cfg v1 v2 v3) ["-c"] none "").(r_st).(fsys).
Definition rd (x : list string) : path := run_dir_atlas ++ x.
(* what runs leave in the run directory: the file list, the job's submission directory, a relative destination *)
Definition built_world (cfg : config) (v1 v2 v3 fl bg ro : option string) : fs :=
  set_slots (built_base cfg v1 v2 v3)
    [ (rd ["filelist.txt"], ofile fl);
      (rd ["bogus"], match bg with Some _ => Some Dir | None => None end);
      (rd ["bogus"; "data-ANALYSIS"], match bg with Some _ => Some Dir | None => None end);
      (rd ["bogus"; "data-ANALYSIS"; "ANALYSIS.root"], ofile bg);
      (rd ["rel_out.root"], ofile ro) ].
Definition pres (b : bool) (v : string) : option string := if b then Some v else None.

Section BuiltTables.
Variables (fld fll ent cal cvs : bool) (ov1 ov2 ov3 oro fl bg d o' : option string) (args : list string) (x y n vt vf vb f' : string) (a : ascii) (k0 : nat).

Lemma built_nr : all_env cal (fun rel cal => all_b (fun c =>
  let cfg := mkConfig fld fll rel ent cal cvs in let W := built_world cfg ov1 ov2 ov3 fl bg oro in
  caseP B c false d o' W n rest' (ST cfg W args (mkP c false d o' x y) k0) 3)).
Proof. solve_table. Qed.
Lemma built_rc : all_env cal (fun rel cal =>
  let cfg := mkConfig fld fll rel ent cal cvs in let W := built_world cfg ov1 ov2 ov3 fl bg oro in
  caseP B true true d o' W n rest' (ST cfg W args (mkP true true d o' x y) k0) 3).
Proof. solve_table. Qed.
Definition rf_entry (rel fld' fll' cal' pf pb pv dsel : bool) (oi : nat) : Prop :=
  let o1 := nth oi olist None in let d1 := dsel_of dsel a f' in
  let cfg := mkConfig fld' fll' rel ent cal' cvs in
  let W := built_world cfg (slot_val 0 o1 pv vt ov1) (slot_val 1 o1 pv vt ov2) (slot_val 2 o1 pv vt ov3)
                       (pres pf vf) (pres pb vb) (slot_val 3 o1 pv vt oro) in
  caseP B false true d1 o1 W n rest' (ST cfg W args (mkP false true d1 o1 x y) k0) 9.
Lemma built_rf :
  all_b (fun rel => all_b (fun fld' => all_b (fun fll' => all_b (fun cal' => all_b (fun pf => all_b (fun pb => all_b (fun pv => all_b (fun dsel =>
  all_lt 6 (fun oi => rf_entry rel fld' fll' cal' pf pb pv dsel oi))))))))).
Proof. solve_table. Qed.
End BuiltTables.

Definition isS (o : option string) : bool := match o with Some _ => true | None => false end.
Definition valS (o : option string) : string := match o with Some v => v | None => "" end.

Ltac use_rf H rel fld fll cal pf pb pv dsel oi :=
  apply all_b_elim with (b := rel) in H; apply all_b_elim with (b := fld) in H; apply all_b_elim with (b := fll) in H;
  apply all_b_elim with (b := cal) in H; apply all_b_elim with (b := pf) in H; apply all_b_elim with (b := pb) in H;
  apply all_b_elim with (b := pv) in H; apply all_b_elim with (b := dsel) in H;
  apply all_lt_elim with (k := oi) in H; [|lia].

Lemma built_rf_case : forall fld fll rel ent cal cvs v1 v2 v3 fl bg ro d o' args x y n k0,
  plain_d d -> known_o o' ->
  let cfg := mkConfig fld fll rel ent cal cvs in let W := built_world cfg v1 v2 v3 fl bg ro in
  caseP B false true d o' W n rest' (ST cfg W args (mkP false true d o' x y) k0) 9.
Proof.
  intros fld fll rel ent cal cvs v1 v2 v3 fl bg ro d o' args x y n k0 Hd Ho. cbv zeta.
  destruct d as [[|a f']|]; [exfalso; apply Hd; reflexivity| |];
  (destruct o' as [p|]; [simpl in Ho; decompose [or] Ho; clear Ho; try contradiction; subst p|]).
  - pose proof (built_rf ent cvs None v2 v3 ro args x y n (valS v1) (valS fl) (valS bg) f' a k0) as H.
    use_rf H rel fld fll cal (isS fl) (isS bg) (isS v1) true 1. destruct v1, fl, bg; exact H.
  - pose proof (built_rf ent cvs v1 None v3 ro args x y n (valS v2) (valS fl) (valS bg) f' a k0) as H.
    use_rf H rel fld fll cal (isS fl) (isS bg) (isS v2) true 2. destruct v2, fl, bg; exact H.
  - pose proof (built_rf ent cvs v1 v2 None ro args x y n (valS v3) (valS fl) (valS bg) f' a k0) as H.
    use_rf H rel fld fll cal (isS fl) (isS bg) (isS v3) true 3. destruct v3, fl, bg; exact H.
  - pose proof (built_rf ent cvs v1 v2 v3 ro args x y n "" (valS fl) (valS bg) f' a k0) as H.
    use_rf H rel fld fll cal (isS fl) (isS bg) true true 4. destruct fl, bg; exact H.
  - pose proof (built_rf ent cvs v1 v2 v3 None args x y n (valS ro) (valS fl) (valS bg) f' a k0) as H.
    use_rf H rel fld fll cal (isS fl) (isS bg) (isS ro) true 5. destruct ro, fl, bg; exact H.
  - pose proof (built_rf ent cvs None v2 v3 ro args x y n (valS v1) (valS fl) (valS bg) f' a k0) as H.
    use_rf H rel fld fll cal (isS fl) (isS bg) (isS v1) true 0. destruct v1, fl, bg; exact H.
  - pose proof (built_rf ent cvs None v2 v3 ro args x y n (valS v1) (valS fl) (valS bg) "" "a"%char k0) as H.
    use_rf H rel fld fll cal (isS fl) (isS bg) (isS v1) false 1. destruct v1, fl, bg; exact H.
  - pose proof (built_rf ent cvs v1 None v3 ro args x y n (valS v2) (valS fl) (valS bg) "" "a"%char k0) as H.
    use_rf H rel fld fll cal (isS fl) (isS bg) (isS v2) false 2. destruct v2, fl, bg; exact H.
  - pose proof (built_rf ent cvs v1 v2 None ro args x y n (valS v3) (valS fl) (valS bg) "" "a"%char k0) as H.
    use_rf H rel fld fll cal (isS fl) (isS bg) (isS v3) false 3. destruct v3, fl, bg; exact H.
  - pose proof (built_rf ent cvs v1 v2 v3 ro args x y n "" (valS fl) (valS bg) "" "a"%char k0) as H.
    use_rf H rel fld fll cal (isS fl) (isS bg) true false 4. destruct fl, bg; exact H.
  - pose proof (built_rf ent cvs v1 v2 v3 None args x y n (valS ro) (valS fl) (valS bg) "" "a"%char k0) as H.
    use_rf H rel fld fll cal (isS fl) (isS bg) (isS ro) false 5. destruct ro, fl, bg; exact H.
  - pose proof (built_rf ent cvs None v2 v3 ro args x y n (valS v1) (valS fl) (valS bg) "" "a"%char k0) as H.
    use_rf H rel fld fll cal (isS fl) (isS bg) (isS v1) false 0. destruct v1, fl, bg; exact H.
Qed.

(* one invocation in a package that has been built *)
Lemma master_built : forall cfg v1 v2 v3 fl bg ro args o n,
  match classify args with Flags _ _ d o' => plain_d d /\ known_o o' | _ => True end ->
  spec B (classify args) (built_world cfg v1 v2 v3 fl bg ro) o n (invoke script cfg (built_world cfg v1 v2 v3 fl bg ro) args o n).
Proof.
  intros [fld fll rel ent cal cvs] v1 v2 v3 fl bg ro args o n. rewrite after_parse'. unfold classify. cbv zeta.
  generalize (snd (getopts_events "d:o:cr" args)). intros k0.
  generalize (summ p0 (fst (getopts_events "d:o:cr" args))). intros [s ok]. cbn [fst snd].
  destruct ok.
  2:{ intros _. split; [reflexivity|]. split; vm_compute; reflexivity. }
  destruct (skipn k0 args) as [|a l].
  2:{ intros _. split; [|split]; vm_compute; reflexivity. }
  destruct s as [c r d o' x y]. cbn [pc pr pd po]. intros [Hd Ho].
  change (upd_last (upd_pos (after_loop (mkConfig fld fll rel ent cal cvs) (built_world (mkConfig fld fll rel ent cal cvs) v1 v2 v3 fl bg ro) args (mkP c r d o' x y) k0) []) 0)
    with (ST (mkConfig fld fll rel ent cal cvs) (built_world (mkConfig fld fll rel ent cal cvs) v1 v2 v3 fl bg ro) args (mkP c r d o' x y) k0).
  destruct r.
  - destruct c.
    + apply spec_from_caseP with (N := 3); [apply ST_steps|].
      pose proof (built_rc fld fll ent cal cvs v1 v2 v3 ro fl bg d o' args x y n k0) as H.
      apply all_env_elim with (rel := rel) in H. exact H.
    + apply spec_from_caseP with (N := 9); [apply ST_steps|]. apply built_rf_case; assumption.
  - apply spec_from_caseP with (N := 3); [apply ST_steps|].
    pose proof (built_nr fld fll ent cal cvs v1 v2 v3 ro fl bg d o' args x y n k0) as H.
    apply all_env_elim with (rel := rel) in H. apply all_b_elim with (b := c) in H. exact H.
Qed.
