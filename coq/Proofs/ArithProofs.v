(* Proofs about Model/Arith.v: the emitted C++ expression evaluates to what Python computes on the
   declared value types.  Everything is stated over an arbitrary floating type (Section variables, no
   laws), and over the operator tables regenerated from the source (gen/OpTables.v). *)
From Coq Require Import ZArith List Bool Lia ZifyBool String.
From FV Require Import Base.Prelude gen.OpTables Model.Arith.

Arguments int_ok : simpl never.

(* ---------- integers ---------- *)
Lemma rem_is_floor_mod : forall a b : Z, (0 <= a)%Z -> (0 < b)%Z -> Z.rem a b = (a mod b)%Z.
Proof. intros a b Ha Hb. apply Z.rem_mod_nonneg; assumption. Qed.

Lemma quot_in_range : forall a b : Z, (0 <= a)%Z -> (0 < b)%Z -> int_ok a = true -> int_ok (Z.quot a b) = true.
Proof.
  intros a b Ha Hb Hr. unfold int_ok in *.
  rewrite Z.quot_div_nonneg by assumption.
  assert (H0 : (0 <= a / b)%Z) by (apply Z.div_pos; assumption).
  assert (H1 : (a / b <= a)%Z).
  { apply Z.div_le_upper_bound; [assumption|]. nia. }
  lia.
Qed.

Lemma eqb_false_ne : forall z : Z, negb (z =? 0)%Z = true -> (z =? 0)%Z = false.
Proof. intros z H. destruct (z =? 0)%Z; [discriminate|reflexivity]. Qed.

(* ---------- tables ---------- *)
Lemma ctype_eqb_refl : forall t, ctype_eqb t t = true.
Proof. intro t. unfold ctype_eqb. apply String.eqb_refl. Qed.

Section Proofs.
  Variable F : Type.
  Variables fadd fsub fmul fdiv fpow fpow32 fpymod : F -> F -> F.
  Variable fneg : F -> F.
  Variables feqb fltb fleb : F -> F -> bool.
  Variable fzero : F -> bool.
  Variable of_Z : Z -> F.
  Variable narrow32 : F -> F.

  Notation val := (val F).
  Notation env := (env F).
  Notation cxx_eval := (cxx_eval F fadd fsub fmul fdiv fpow fpow32 fneg feqb fltb fleb fzero of_Z narrow32).
  Notation cxx_assign := (cxx_assign F fadd fsub fmul fdiv fpow fpow32 fneg feqb fltb fleb fzero of_Z narrow32).
  Notation cxx_ifexp := (cxx_ifexp F fadd fsub fmul fdiv fpow fpow32 fneg feqb fltb fleb fzero of_Z narrow32).
  Notation cxx_loop := (cxx_loop F fadd fsub fmul fdiv fpow fpow32 fneg feqb fltb fleb fzero of_Z narrow32).
  Notation cxx_aggregate := (cxx_aggregate F fadd fsub fmul fdiv fpow fpow32 fneg feqb fltb fleb fzero of_Z narrow32).
  Notation convert := (convert F fzero of_Z narrow32).
  Notation truthy := (truthy F fzero).
  Notation py_binop := (py_binop F fadd fsub fmul fdiv fpow fpow32 fpymod fzero of_Z narrow32).
  Notation py_unary := (py_unary F fneg fzero).
  Notation py_compare := (py_compare F feqb fltb fleb of_Z narrow32).
  Notation py_ifexp := (py_ifexp F fzero).
  Notation denote := (denote F fadd fsub fmul fdiv fpow fpow32 fpymod fneg feqb fltb fleb fzero of_Z narrow32).
  Notation widen_to := (widen_to F of_Z narrow32).
  Notation py_fold := (py_fold F).

  (* ---------------------------------------------------------------------------------------- *)
  (* binary operators                                                                          *)
  (* ---------------------------------------------------------------------------------------- *)

  (* the operators the property lists *)
  Definition listed (op : pybinop) : Prop :=
    op = Add \/ op = Sub \/ op = Mult \/ op = Div \/ op = Mod \/ op = Pow.

  Definition is_intval (v : val) : bool := match v with VInt _ => true | _ => false end.
  Definition is_bool (v : val) : bool := match v with VBool _ => true | _ => false end.
  Definition nonneg (v : val) : bool := match v with VInt z => (0 <=? z)%Z | _ => false end.

  (* side condition of '%': integer operands, both non-negative (the property's restriction) *)
  Definition mod_side (op : pybinop) (a b : val) : Prop :=
    match op with Mod => nonneg a = true /\ nonneg b = true | _ => True end.
  (* std::pow(float, float) is the float overload: its C++ type is float although declared double *)
  Definition both_float (op : pybinop) (a b : val) : bool :=
    match op, a, b with Pow, VFlt _, VFlt _ => true | _, _, _ => false end.

  Ltac inv H := inversion H; subst; clear H.

  Ltac finish_int :=
    repeat match goal with
           | H : int_ok ?z = true |- context [mk_int _ ?z] => unfold mk_int; rewrite H
           end; auto.

  (* strong form: the expression itself evaluates to Python's value and has the declared type *)
  Lemma binop_strong : forall (op : pybinop) (l r rp : rep) (E : env) (v1 v2 pv : val),
    listed op ->
    visit_BinOp op l r = OK rp ->
    cxx_eval E (r_expr l) = Some v1 -> type_of v1 = r_ty l ->
    cxx_eval E (r_expr r) = Some v2 -> type_of v2 = r_ty r ->
    in_range v1 = true -> in_range v2 = true ->
    mod_side op v1 v2 ->
    both_float op v1 v2 = false ->
    py_binop op v1 v2 = Some pv ->
    in_range pv = true ->
    cxx_eval E (r_expr rp) = Some pv /\ type_of pv = r_ty rp.
  Proof.
    intros op [e1 t1] [e2 t2] rp E v1 v2 pv Hl Hv He1 Ht1 He2 Ht2 Hr1 Hr2 Hmod Hbf Hpy Hrp.
    simpl in *. subst t1 t2.
    destruct Hl as [-> | [-> | [-> | [-> | [-> | ->]]]]];
      destruct v1 as [b1|z1|x1|x1]; destruct v2 as [b2|z2|x2|x2];
      vm_compute in Hv; try discriminate Hv; inv Hv;
      try discriminate Hbf; simpl in Hmod;
      try match type of Hmod with _ /\ _ => destruct Hmod as [Hm1 Hm2]; try discriminate Hm1; try discriminate Hm2 end;
      unfold Arith.py_binop, py_lift, py_is_zero, Arith.truthy in Hpy; simpl in Hpy;
      try match type of Hpy with
          | (if negb (negb ?c) then _ else _) = _ => destruct c eqn:Hz; simpl in Hpy; [discriminate Hpy|]
          end;
      inv Hpy; simpl in Hrp; simpl; rewrite He1, He2; simpl; try rewrite Hz; finish_int.
    (* what remains: int % int on non-negative operands *)
    simpl in Hm1, Hm2, Hr1.
    rewrite quot_in_range by (try assumption; lia). rewrite rem_is_floor_mod by lia. auto.
  Qed.
End Proofs.
