(* Proofs about Model/Arith.v: the emitted C++ expression evaluates to what Python computes on the
   declared value types.  Everything is stated over an arbitrary floating type (Section variables, no
   laws), and over the operator tables regenerated from the source (gen/OpTables.v). *)
From Coq Require Import ZArith List Bool Lia ZifyBool String.
From FV Require Import Base.Prelude gen.OpTables Model.Arith.

Arguments int_ok : simpl never.

(* ---------- integers ---------- *)
Lemma rem_is_floor_mod : forall a b : Z, (0 <= a)%Z -> (0 < b)%Z -> Z.rem a b = (a mod b)%Z.
Proof. intros a b Ha Hb. apply Z.rem_mod_nonneg; assumption. Qed.

Lemma quot_in_range : forall a b : Z, (0 <= a)%Z -> (0 < b)%Z -> int_ok a = true -> int_ok (Z.quot a b) = true.
Proof.
  intros a b Ha Hb Hr. unfold int_ok in *.
  rewrite Z.quot_div_nonneg by assumption.
  assert (H0 : (0 <= a / b)%Z) by (apply Z.div_pos; assumption).
  assert (H1 : (a / b <= a)%Z).
  { apply Z.div_le_upper_bound; [assumption|]. nia. }
  lia.
Qed.

Lemma eqb_false_ne : forall z : Z, negb (z =? 0)%Z = true -> (z =? 0)%Z = false.
Proof. intros z H. destruct (z =? 0)%Z; [discriminate|reflexivity]. Qed.

(* ---------- tables ---------- *)
Lemma ctype_eqb_refl : forall t, ctype_eqb t t = true.
Proof. intro t. unfold ctype_eqb. apply String.eqb_refl. Qed.

Section Proofs.
  Variable F : Type.
  Variables fadd fsub fmul fdiv fpow fpow32 fpymod : F -> F -> F.
  Variable fneg : F -> F.
  Variables feqb fltb fleb : F -> F -> bool.
  Variable fzero : F -> bool.
  Variable of_Z : Z -> F.
  Variable narrow32 : F -> F.

  Notation val := (val F).
  Notation env := (env F).
  Notation cxx_eval := (cxx_eval F fadd fsub fmul fdiv fpow fpow32 fneg feqb fltb fleb fzero of_Z narrow32).
  Notation cxx_assign := (cxx_assign F fadd fsub fmul fdiv fpow fpow32 fneg feqb fltb fleb fzero of_Z narrow32).
  Notation cxx_ifexp := (cxx_ifexp F fadd fsub fmul fdiv fpow fpow32 fneg feqb fltb fleb fzero of_Z narrow32).
  Notation cxx_loop := (cxx_loop F fadd fsub fmul fdiv fpow fpow32 fneg feqb fltb fleb fzero of_Z narrow32).
  Notation cxx_aggregate := (cxx_aggregate F fadd fsub fmul fdiv fpow fpow32 fneg feqb fltb fleb fzero of_Z narrow32).
  Notation convert := (convert F fzero of_Z narrow32).
  Notation truthy := (truthy F fzero).
  Notation py_binop := (py_binop F fadd fsub fmul fdiv fpow fpow32 fpymod fzero of_Z narrow32).
  Notation py_unary := (py_unary F fneg fzero).
  Notation py_compare := (py_compare F feqb fltb fleb of_Z narrow32).
  Notation py_ifexp := (py_ifexp F fzero).
  Notation denote := (denote F fadd fsub fmul fdiv fpow fpow32 fpymod fneg feqb fltb fleb fzero of_Z narrow32).
  Notation widen_to := (widen_to F of_Z narrow32).
  Notation py_fold := (py_fold F).

  (* ---------------------------------------------------------------------------------------- *)
  (* binary operators                                                                          *)
  (* ---------------------------------------------------------------------------------------- *)

  (* the operators the property lists *)
  Definition listed (op : pybinop) : Prop :=
    op = Add \/ op = Sub \/ op = Mult \/ op = Div \/ op = Mod \/ op = Pow.

  Definition is_intval (v : val) : bool := match v with VInt _ => true | _ => false end.
  Definition is_bool (v : val) : bool := match v with VBool _ => true | _ => false end.
  Definition is_long (v : val) : bool := match v with VLong _ => true | _ => false end.
  Definition nonneg (v : val) : bool := match v with VInt z => (0 <=? z)%Z | _ => false end.

  (* side condition of '%': integer operands, both non-negative (the property's restriction) *)
  Definition mod_side (op : pybinop) (a b : val) : Prop :=
    match op with Mod => nonneg a = true /\ nonneg b = true | _ => True end.
  (* std::pow(float, float) is the float overload: its C++ type is float although declared double *)
  Definition both_float (op : pybinop) (a b : val) : bool :=
    match op, a, b with Pow, VFlt _, VFlt _ => true | _, _, _ => false end.

  Ltac inv H := inversion H; subst; clear H.

  Ltac finish_int :=
    repeat match goal with
           | H : int_ok ?z = true |- context [mk_int _ ?z] => unfold mk_int; rewrite H
           end; auto.

  (* strong form: the expression itself evaluates to Python's value and has the declared type *)
  Lemma binop_strong : forall (op : pybinop) (l r rp : rep) (E : env) (v1 v2 pv : val),
    listed op ->
    visit_BinOp op l r = OK rp ->
    cxx_eval E (r_expr l) = Some v1 -> type_of v1 = r_ty l ->
    cxx_eval E (r_expr r) = Some v2 -> type_of v2 = r_ty r ->
    in_range v1 = true -> in_range v2 = true ->
    mod_side op v1 v2 ->
    both_float op v1 v2 = false ->
    py_binop op v1 v2 = Some pv ->
    in_range pv = true ->
    cxx_eval E (r_expr rp) = Some pv /\ type_of pv = r_ty rp.
  Proof.
    intros op [e1 t1] [e2 t2] rp E v1 v2 pv Hl Hv He1 Ht1 He2 Ht2 Hr1 Hr2 Hmod Hbf Hpy Hrp.
    simpl in *. subst t1 t2.
    destruct Hl as [-> | [-> | [-> | [-> | [-> | ->]]]]];
      destruct v1 as [b1|z1|x1|x1|w1]; destruct v2 as [b2|z2|x2|x2|w2];
      vm_compute in Hv; try discriminate Hv; inv Hv;
      try discriminate Hbf; simpl in Hmod;
      try match type of Hmod with _ /\ _ => destruct Hmod as [Hm1 Hm2]; try discriminate Hm1; try discriminate Hm2 end;
      unfold Arith.py_binop, py_lift, py_is_zero, Arith.truthy in Hpy; simpl in Hpy;
      try match type of Hpy with
          | (if negb (negb ?c) then _ else _) = _ => destruct c eqn:Hz; simpl in Hpy; [discriminate Hpy|]
          end;
      inv Hpy; simpl in Hrp; simpl; rewrite He1, He2; simpl; unfold Arith.cxx_arith, Arith.cxx_cmp; simpl; try rewrite Hz; finish_int.
    (* what remains: int % int on non-negative operands *)
    simpl in Hm1, Hm2, Hr1.
    rewrite quot_in_range by (try assumption; lia). rewrite rem_is_floor_mod by lia. auto.
  Qed.

  (* a value of the declared type is stored unchanged *)
  Lemma convert_same : forall (v : val), convert (type_of v) v = Some v.
  Proof. intros [b|z|x|x|w]; reflexivity. Qed.

  (* column form: the variable of the declared type holds Python's value.  Unlike the strong form it
     also covers std::pow(float, float), whose C++ type is float although it is declared double. *)
  Lemma binop_column : forall (op : pybinop) (l r rp : rep) (E : env) (v1 v2 pv : val),
    listed op ->
    visit_BinOp op l r = OK rp ->
    cxx_eval E (r_expr l) = Some v1 -> type_of v1 = r_ty l ->
    cxx_eval E (r_expr r) = Some v2 -> type_of v2 = r_ty r ->
    in_range v1 = true -> in_range v2 = true ->
    mod_side op v1 v2 ->
    py_binop op v1 v2 = Some pv ->
    in_range pv = true ->
    cxx_assign E (r_ty rp) (r_expr rp) = Some pv /\ type_of pv = r_ty rp.
  Proof.
    intros op l r rp E v1 v2 pv Hl Hv He1 Ht1 He2 Ht2 Hr1 Hr2 Hmod Hpy Hrp.
    destruct (both_float op v1 v2) eqn:Hbf.
    - destruct op; try discriminate Hbf. destruct v1 as [b1|z1|x1|x1|w1]; try discriminate Hbf.
      destruct v2 as [b2|z2|x2|x2|w2]; try discriminate Hbf.
      destruct l as [e1 t1], r as [e2 t2]. simpl in *. subst t1 t2.
      vm_compute in Hv. inv Hv. simpl in Hpy. inv Hpy.
      unfold Arith.cxx_assign. simpl. rewrite He1, He2. simpl. unfold Arith.cxx_arith, Arith.cxx_cmp; simpl. auto.
    - destruct (binop_strong op l r rp E v1 v2 pv Hl Hv He1 Ht1 He2 Ht2 Hr1 Hr2 Hmod Hbf Hpy Hrp) as [Hc Ht].
      split; [|exact Ht]. unfold Arith.cxx_assign. rewrite Hc, <- Ht. apply convert_same.
  Qed.


  (* '**': std::pow on any operand types (booleans included), declared double *)
  Lemma pow_correct : forall (l r rp : rep) (E : env) (v1 v2 pv : val),
    visit_BinOp Pow l r = OK rp ->
    cxx_eval E (r_expr l) = Some v1 -> type_of v1 = r_ty l ->
    cxx_eval E (r_expr r) = Some v2 -> type_of v2 = r_ty r ->
    in_range v1 = true -> in_range v2 = true ->
    py_binop Pow v1 v2 = Some pv ->
    cxx_assign E (r_ty rp) (r_expr rp) = Some pv /\ r_ty rp = TDouble /\ type_of pv = TDouble.
  Proof.
    intros l r rp E v1 v2 pv Hv He1 Ht1 He2 Ht2 Hr1 Hr2 Hpy.
    assert (Hd : type_of pv = TDouble).
    { unfold Arith.py_binop in Hpy. destruct (width_of F v1), (width_of F v2); inversion Hpy; reflexivity. }
    assert (Hrp : in_range pv = true) by (destruct pv; try reflexivity; discriminate Hd).
    destruct (binop_column Pow l r rp E v1 v2 pv) as [H1 H2]; auto.
    - unfold listed. tauto.
    - simpl. exact I.
    - split; [exact H1|]. split; [rewrite <- H2; exact Hd|exact Hd].
  Qed.

  (* '%' with a floating operand: the emitted expression is ill-formed C++ (no value), for every F *)
  Lemma mod_floating_illformed : forall (l r rp : rep) (E : env) (v1 v2 : val),
    visit_BinOp Mod l r = OK rp ->
    cxx_eval E (r_expr l) = Some v1 -> type_of v1 = r_ty l ->
    cxx_eval E (r_expr r) = Some v2 -> type_of v2 = r_ty r ->
    is_intval v1 && is_intval v2 = false ->
    cxx_eval E (r_expr rp) = None.
  Proof.
    intros [e1 t1] [e2 t2] rp E v1 v2 Hv He1 Ht1 He2 Ht2 Hfl. simpl in *. subst t1 t2.
    destruct v1 as [b1|z1|x1|x1|w1]; destruct v2 as [b2|z2|x2|x2|w2];
      vm_compute in Hv; try discriminate Hv; try discriminate Hfl; inv Hv;
      simpl; rewrite He1, He2; simpl; unfold Arith.cxx_arith; simpl; reflexivity.
  Qed.

  (* a boolean operand of + - * / % is refused (AssertionError in most_accurate_type) *)
  Lemma bool_operand_refused : forall (op : pybinop) (l r : rep),
    op = Add \/ op = Sub \/ op = Mult \/ op = Div \/ op = Mod ->
    r_ty l = TBool \/ r_ty r = TBool ->
    visit_BinOp op l r = Error ErrAssert.
  Proof.
    intros op l r Hop Hb.
    assert (Hm : most_accurate_type [r_ty l; r_ty r] = Error ErrAssert).
    { unfold most_accurate_type.
      assert (Hf : forallb (fun t => match priority_of t with Some _ => true | None => false end) [r_ty l; r_ty r] = false).
      { destruct Hb as [Hb | Hb]; rewrite Hb; simpl.
        - reflexivity.
        - destruct (priority_of (r_ty l)); reflexivity. }
      rewrite Hf. reflexivity. }
    assert (Ht : exists tok, assoc_s (pybinop_name op) known_binary_operators = Some tok).
    { destruct Hop as [-> | [-> | [-> | [-> | ->]]]]; vm_compute; eexists; reflexivity. }
    destruct Ht as [tok Ht]. unfold visit_BinOp. rewrite Ht, Hm. reflexivity.
  Qed.

  (* ---------------------------------------------------------------------------------------- *)
  (* unary operators                                                                           *)
  (* ---------------------------------------------------------------------------------------- *)
  Lemma unary_correct : forall (op : pyunop) (a rp : rep) (E : env) (v pv : val),
    visit_UnaryOp op a = OK rp ->
    cxx_eval E (r_expr a) = Some v -> type_of v = r_ty a -> in_range v = true ->
    (op = Not \/ is_bool v = false) -> is_long v = false ->
    py_unary op v = Some pv -> in_range pv = true ->
    cxx_eval E (r_expr rp) = Some pv
    /\ cxx_assign E (r_ty rp) (r_expr rp) = widen_to (r_ty rp) pv
    /\ ty_le (type_of pv) (r_ty rp) = true
    /\ (op <> Not -> type_of pv = r_ty rp).
  Proof.
    intros op [e t] rp E v pv Hv He Ht Hr Hnb Hnl Hpy Hrp. simpl in *. subst t.
    destruct op as [ | | |n]; try discriminate Hpy;
      destruct v as [b|z|x|x|w]; try discriminate Hnl;
      try (destruct Hnb as [Hn|Hn]; [discriminate Hn|discriminate Hn]);
      vm_compute in Hv; inv Hv; simpl in Hpy; inv Hpy; simpl in Hrp;
      unfold Arith.cxx_assign; simpl; rewrite He; simpl; finish_int;
      repeat split; try reflexivity; try congruence;
      try (destruct b; reflexivity);
      try (destruct (negb _); reflexivity).
  Qed.

  (* ---------------------------------------------------------------------------------------- *)
  (* comparisons                                                                               *)
  (* ---------------------------------------------------------------------------------------- *)
  Lemma compare_correct : forall (op : pycmp) (l r rp : rep) (E : env) (v1 v2 pv : val),
    visit_Compare op l r = OK rp ->
    cxx_eval E (r_expr l) = Some v1 ->
    cxx_eval E (r_expr r) = Some v2 ->
    py_compare op v1 v2 = Some pv ->
    cxx_eval E (r_expr rp) = Some pv /\ type_of pv = r_ty rp /\ r_ty rp = TBool.
  Proof.
    intros op [e1 t1] [e2 t2] rp E v1 v2 pv Hv He1 He2 Hpy. simpl in *.
    destruct op as [ | | | | | |n]; try discriminate Hpy;
      vm_compute in Hv; inv Hv;
      destruct v1 as [b1|z1|x1|x1|w1]; destruct v2 as [b2|z2|x2|x2|w2];
      unfold Arith.py_compare in Hpy; simpl in Hpy; inv Hpy;
      simpl; rewrite He1, He2; simpl; unfold Arith.cxx_arith, Arith.cxx_cmp; simpl; auto.
  Qed.

  (* ---------------------------------------------------------------------------------------- *)
  (* conditional                                                                               *)
  (* ---------------------------------------------------------------------------------------- *)
  Lemma assign_double : forall (E : env) (a : rep) (v : val),
    cxx_eval E (r_expr a) = Some v -> type_of v = r_ty a -> is_long v = false ->
    cxx_assign E TDouble (set_var_rhs TDouble a) = widen_to TDouble v.
  Proof.
    intros E [e t] v He Ht Hnl. simpl in *. subst t.
    destruct v as [b|z|x|x|w]; try discriminate Hnl; unfold set_var_rhs, Arith.cxx_assign; simpl; rewrite He; reflexivity.
  Qed.

  Lemma ifexp_correct : forall (t b o : rep) (E : env) (c x y : val),
    cxx_eval E (r_expr t) = Some c ->
    cxx_eval E (r_expr b) = Some x -> type_of x = r_ty b -> is_long x = false ->
    cxx_eval E (r_expr o) = Some y -> type_of y = r_ty o -> is_long y = false ->
    cxx_ifexp E (visit_IfExp t b o) = widen_to TDouble (py_ifexp c x y)
    /\ exists w, widen_to TDouble (py_ifexp c x y) = Some (VDbl w).
  Proof.
    intros t b o E c x y Hc Hx Htx Hlx Hy Hty Hly.
    unfold Arith.cxx_ifexp, visit_IfExp, Arith.py_ifexp. simpl. rewrite Hc.
    destruct (truthy c).
    - rewrite (assign_double E b x Hx Htx Hlx). split; [reflexivity|].
      destruct x; try discriminate Hlx; simpl; eexists; reflexivity.
    - rewrite (assign_double E o y Hy Hty Hly). split; [reflexivity|].
      destruct y; try discriminate Hly; simpl; eexists; reflexivity.
  Qed.

  (* ---------------------------------------------------------------------------------------- *)
  (* accumulators                                                                              *)
  (* ---------------------------------------------------------------------------------------- *)
  Lemma priority_known : forall t p, priority_of t = Some p ->
    ctype_name t = "int" \/ ctype_name t = "float" \/ ctype_name t = "double".
  Proof.
    intros t p H. unfold priority_of in H. simpl in H.
    destruct (String.eqb (ctype_name t) "int") eqn:H1; [apply String.eqb_eq in H1; auto|].
    destruct (String.eqb (ctype_name t) "float") eqn:H2; [apply String.eqb_eq in H2; auto|].
    destruct (String.eqb (ctype_name t) "double") eqn:H3; [apply String.eqb_eq in H3; auto|].
    discriminate H.
  Qed.

  Lemma ty_le_names : forall a b a' b', ctype_name a = ctype_name a' -> ctype_name b = ctype_name b' ->
    ty_le a b = ty_le a' b'.
  Proof. intros a b a' b' Ha Hb. unfold ty_le, ty_rank. rewrite Ha, Hb. reflexivity. Qed.

  Lemma most_accurate_two : forall a b t, most_accurate_type [a; b] = OK t ->
    (t = a \/ t = b) /\ ty_le a t = true /\ ty_le b t = true.
  Proof.
    intros a b t H. unfold most_accurate_type in H. simpl in H.
    destruct (priority_of a) as [pa|] eqn:Ha; [|discriminate H].
    destruct (priority_of b) as [pb|] eqn:Hb; [|discriminate H].
    simpl in H.
    pose proof (priority_known a pa Ha) as Ka. pose proof (priority_known b pb Hb) as Kb.
    unfold priority_of in Ha, Hb.
    destruct Ka as [Ka|[Ka|Ka]]; destruct Kb as [Kb|[Kb|Kb]]; rewrite Ka in Ha; rewrite Kb in Hb;
      vm_compute in Ha; vm_compute in Hb; inv Ha; inv Hb; simpl in H; inv H;
      (split; [auto|]); unfold ty_le, ty_rank; try rewrite Ka; try rewrite Kb; split; reflexivity.
  Qed.

  Lemma acc_width : forall (acc : string) (seed : rep) (upd : rep -> result rep) (a : agg),
    call_Aggregate acc seed upd = OK a ->
    exists u, upd (mk_rep (ELeaf acc) (r_ty seed)) = OK u
              /\ ty_le (r_ty seed) (a_ty a) = true /\ ty_le (r_ty u) (a_ty a) = true
              /\ (a_ty a = r_ty seed \/ a_ty a = r_ty u).
  Proof.
    intros acc seed upd a H. unfold call_Aggregate in H.
    destruct (check_accumulator_type (r_ty seed)) eqn:Hc; simpl in H; [|discriminate H].
    destruct (upd (mk_rep (ELeaf acc) (r_ty seed))) as [u|e] eqn:Hu; simpl in H; [|discriminate H].
    destruct (aggregate_type (r_ty seed) (r_ty u)) as [t|e] eqn:Ht; simpl in H; [|discriminate H].
    inv H. simpl. exists u. split; [reflexivity|].
    unfold aggregate_type in Ht.
    destruct (ctype_eqb (r_ty u) (r_ty seed)) eqn:Heq.
    - inv Ht. unfold ctype_eqb in Heq. apply String.eqb_eq in Heq.
      assert (Hs : ty_le (r_ty seed) (r_ty seed) = true).
      { unfold check_accumulator_type in Hc. simpl in Hc. unfold ty_le, ty_rank.
        destruct (String.eqb (ctype_name (r_ty seed)) "float") eqn:H1; [apply String.eqb_eq in H1; rewrite H1; reflexivity|].
        destruct (String.eqb (ctype_name (r_ty seed)) "double") eqn:H2; [apply String.eqb_eq in H2; rewrite H2; reflexivity|].
        destruct (String.eqb (ctype_name (r_ty seed)) "int") eqn:H3; [apply String.eqb_eq in H3; rewrite H3; reflexivity|].
        discriminate Hc. }
      split; [exact Hs|]. split; [|left; reflexivity].
      rewrite (ty_le_names (r_ty u) (r_ty seed) (r_ty seed) (r_ty seed) Heq eq_refl). exact Hs.
    - destruct (most_accurate_two _ _ _ Ht) as [Hor [H1 H2]]. auto.
  Qed.

  (* the loop computes the fold as soon as one step does *)
  Lemma loop_fold : forall (E : env) (acc elem : string) (t : ctype) (upd : cexpr) (f : val -> val -> option val)
                           (P : val -> Prop),
    (forall cur x nxt, P cur -> f cur x = Some nxt ->
        cxx_assign (upd_env F (upd_env F E elem x) acc cur) t upd = Some nxt /\ P nxt) ->
    forall xs cur res, P cur -> py_fold f cur xs = Some res -> cxx_loop E acc elem t upd cur xs = Some res.
  Proof.
    intros E acc elem t upd f P Hstep xs. induction xs as [|x xs IH]; intros cur res HP Hf; simpl in *.
    - exact Hf.
    - destruct (f cur x) as [nxt|] eqn:Hn; [|discriminate Hf].
      destruct (Hstep cur x nxt HP Hn) as [Ha HP']. rewrite Ha. apply IH; assumption.
  Qed.

  (* simulation form: the C++ accumulator may hold a widened copy of Python's accumulator *)
  Lemma loop_sim : forall (E : env) (acc elem : string) (t : ctype) (upd : cexpr) (f : val -> val -> option val)
                          (R : val -> val -> Prop),
    (forall ccur pcur x pnxt, R ccur pcur -> f pcur x = Some pnxt ->
        exists cnxt, cxx_assign (upd_env F (upd_env F E elem x) acc ccur) t upd = Some cnxt /\ R cnxt pnxt) ->
    forall xs ccur pcur pres, R ccur pcur -> py_fold f pcur xs = Some pres ->
      exists cres, cxx_loop E acc elem t upd ccur xs = Some cres /\ R cres pres.
  Proof.
    intros E acc elem t upd f R Hstep xs. induction xs as [|x xs IH]; intros ccur pcur pres HR Hf; simpl in *.
    - inv Hf. exists ccur. auto.
    - destruct (f pcur x) as [pnxt|] eqn:Hn; [|discriminate Hf].
      destruct (Hstep ccur pcur x pnxt HR Hn) as [cnxt [Ha HR']]. rewrite Ha. eapply IH; eassumption.
  Qed.

  (* ---------------------------------------------------------------------------------------- *)
  (* whole expressions                                                                         *)
  (* ---------------------------------------------------------------------------------------- *)
  (* side conditions, node by node: operands well typed and in int range; results in int range;
     '%' on non-negative integers; the two places where the C++ type of the emitted expression is not
     the declared one are excluded (std::pow(float,float); '!' applied to a number) as is unary +/-
     on a boolean (typed bool by the translator). *)
  Fixpoint side (E : env) (a : aexpr) : Prop :=
    match a with
    | ALeaf t ty => exists v, E t = Some v /\ type_of v = ty /\ in_range v = true
    | AInt z => int_ok z = true
    | ABool _ => True
    | ABin op l r =>
        side E l /\ side E r /\ listed op /\
        forall x y, denote E l = Some x -> denote E r = Some y ->
          mod_side op x y /\ both_float op x y = false /\
          forall z, py_binop op x y = Some z -> in_range z = true
    | AUn op x =>
        side E x /\
        forall v, denote E x = Some v ->
          (match op with Not => is_bool v = true | _ => is_bool v = false /\ is_long v = false end) /\
          forall w, py_unary op v = Some w -> in_range w = true
    | ACmp op l r => side E l /\ side E r
    end.

  Lemma visit_BinOp_Pow : forall l r, visit_BinOp Pow l r = visit_special_BinOp Pow l r.
  Proof. reflexivity. Qed.

  Lemma translate_correct : forall (E : env) (a : aexpr) (rp : rep) (pv : val),
    translate a = OK rp -> denote E a = Some pv -> side E a ->
    cxx_eval E (r_expr rp) = Some pv /\ type_of pv = r_ty rp /\ in_range pv = true.
  Proof.
    intros E a. induction a as [t ty|z|b|op l IHl r IHr|op x IHx|op l IHl r IHr]; intros rp pv Ht Hd Hs.
    - simpl in *. inv Ht. destruct Hs as [v [Hv [Hty Hr]]]. simpl. rewrite Hv in Hd. inv Hd. auto.
    - simpl in *.
      assert (Hnr : int_constant_refused z = false).
      { unfold int_constant_refused, int_ok in *. lia. }
      rewrite Hnr in Ht. inv Ht. inv Hd. simpl. rewrite Hs. auto.
    - simpl in *. inv Ht. inv Hd. simpl. auto.
    - simpl in Hs. destruct Hs as [Hsl [Hsr [Hop Hnode]]].
      simpl in Hd.
      destruct (denote E l) as [x|] eqn:Hdl; [|discriminate Hd].
      destruct (denote E r) as [y|] eqn:Hdr; [|discriminate Hd].
      destruct (Hnode x y eq_refl eq_refl) as [Hmod [Hbf Hrange]].
      assert (Hvis : exists l' r', translate l = OK l' /\ translate r = OK r' /\ visit_BinOp op l' r' = OK rp).
      { simpl in Ht.
        destruct Hop as [-> | [-> | [-> | [-> | [-> | ->]]]]]; simpl in Ht;
          destruct (translate l) as [l'|e1]; simpl in Ht; try discriminate Ht;
          destruct (translate r) as [r'|e2]; simpl in Ht; try discriminate Ht;
          exists l', r'; auto. }
      destruct Hvis as [l' [r' [Hl' [Hr' Hvis]]]].
      destruct (IHl l' x Hl' eq_refl Hsl) as [Hel [Htl Hrl]].
      destruct (IHr r' y Hr' eq_refl Hsr) as [Her [Htr Hrr]].
      pose proof (Hrange pv Hd) as Hrp.
      destruct (binop_strong op l' r' rp E x y pv Hop Hvis Hel Htl Her Htr Hrl Hrr Hmod Hbf Hd Hrp) as [H1 H2].
      auto.
    - simpl in Hs. destruct Hs as [Hsx Hnode]. simpl in Hd.
      destruct (denote E x) as [v|] eqn:Hdx; [|discriminate Hd].
      destruct (Hnode v eq_refl) as [Hb Hrange].
      pose proof (Hrange pv Hd) as Hrp.
      destruct op as [ | | |n]; try discriminate Hd; simpl in Ht;
        destruct (translate x) as [x'|e] eqn:Hx'; simpl in Ht; try discriminate Ht;
        destruct (IHx x' v eq_refl eq_refl Hsx) as [Hex [Htx Hrx]].
      + destruct Hb as [Hb Hnl].
        destruct (unary_correct UAdd x' rp E v pv Ht Hex Htx Hrx (or_intror Hb) Hnl Hd Hrp) as [H1 [_ [_ H4]]].
        split; [exact H1|]. split; [apply H4; discriminate|exact Hrp].
      + destruct Hb as [Hb Hnl].
        destruct (unary_correct USub x' rp E v pv Ht Hex Htx Hrx (or_intror Hb) Hnl Hd Hrp) as [H1 [_ [_ H4]]].
        split; [exact H1|]. split; [apply H4; discriminate|exact Hrp].
      + assert (Hnl : is_long v = false) by (destruct v; try discriminate Hb; reflexivity).
        destruct (unary_correct Not x' rp E v pv Ht Hex Htx Hrx (or_introl eq_refl) Hnl Hd Hrp) as [H1 _].
        split; [exact H1|]. split; [|exact Hrp].
        destruct v as [b|z|f|f|w]; try discriminate Hb. simpl in Hd. inv Hd.
        vm_compute in Ht. inv Ht. simpl. simpl in Htx. exact Htx.
    - simpl in Hs. destruct Hs as [Hsl Hsr]. simpl in Hd.
      destruct (denote E l) as [x|] eqn:Hdl; [|discriminate Hd].
      destruct (denote E r) as [y|] eqn:Hdr; [|discriminate Hd].
      simpl in Ht.
      destruct (translate l) as [l'|e1]; simpl in Ht; [|discriminate Ht].
      destruct (translate r) as [r'|e2]; simpl in Ht; [|discriminate Ht].
      destruct (IHl l' x eq_refl eq_refl Hsl) as [Hel _].
      destruct (IHr r' y eq_refl eq_refl Hsr) as [Her _].
      destruct (compare_correct op l' r' rp E x y pv Ht Hel Her Hd) as [H1 [H2 _]].
      split; [exact H1|]. split; [exact H2|].
      unfold Arith.py_compare in Hd. destruct (py_cmp_kind op); [|discriminate Hd]. inv Hd. reflexivity.
  Qed.

  (* integer-valued results remain integers: the declared type of + - * % on int operands is int *)
  Lemma int_stays_int : forall (op : pybinop) (l r rp : rep),
    op = Add \/ op = Sub \/ op = Mult \/ op = Mod ->
    r_ty l = TInt -> r_ty r = TInt ->
    visit_BinOp op l r = OK rp -> r_ty rp = TInt.
  Proof.
    intros op [e1 t1] [e2 t2] rp Hop H1 H2 Hv. simpl in *. subst.
    destruct Hop as [-> | [-> | [-> | ->]]]; vm_compute in Hv; inv Hv; reflexivity.
  Qed.

  Lemma int_stays_int_unary : forall (op : pyunop) (a rp : rep),
    r_ty a = TInt -> visit_UnaryOp op a = OK rp -> r_ty rp = TInt.
  Proof.
    intros op [e t] rp H Hv. simpl in *. subst. unfold visit_UnaryOp in Hv.
    destruct (assoc_s (pyunop_name op) known_unary_operators); [|discriminate Hv]. inv Hv. reflexivity.
  Qed.

  (* ---------------------------------------------------------------------------------------- *)
  (* wide integer literals (abs >= 2**31): written as they are - a C++ long - and declared int  *)
  (* ---------------------------------------------------------------------------------------- *)
  Definition wide (z : Z) : Prop := int_ok z = false /\ long_ok z = true.
  Definition numeric (v : val) : bool := match v with VInt _ | VFlt _ | VDbl _ => true | _ => false end.

  (* '/' by a wide literal is the real division: the cast makes the left operand a double *)
  Lemma div_wide_right : forall (l rp : rep) (z : Z) (E : env) (v1 pv : val),
    wide z ->
    visit_BinOp Div l (visit_Constant_int z) = OK rp ->
    cxx_eval E (r_expr l) = Some v1 -> type_of v1 = r_ty l -> numeric v1 = true ->
    py_binop Div v1 (VInt z) = Some pv ->
    cxx_eval E (r_expr rp) = Some pv /\ r_ty rp = TDouble /\ pv = VDbl (fdiv (at64 F of_Z v1) (of_Z z)).
  Proof.
    intros [e1 t1] rp z E v1 pv [Hw1 Hw2] Hv He1 Ht1 Hn Hpy. simpl in *. subst t1.
    destruct v1 as [b1|z1|x1|x1|w1]; try discriminate Hn;
      vm_compute in Hv; inv Hv;
      unfold Arith.py_binop, py_is_zero, Arith.truthy in Hpy; simpl in Hpy;
      (destruct (z =? 0)%Z eqn:Hz; simpl in Hpy; [discriminate Hpy|]); inv Hpy;
      simpl; rewrite He1, Hw1; unfold mk_long; rewrite Hw2; simpl; auto.
  Qed.

  (* a wide literal divided by a number is the real division as well *)
  Lemma div_wide_left : forall (r rp : rep) (z : Z) (E : env) (v2 pv : val),
    wide z ->
    visit_BinOp Div (visit_Constant_int z) r = OK rp ->
    cxx_eval E (r_expr r) = Some v2 -> type_of v2 = r_ty r -> numeric v2 = true ->
    py_binop Div (VInt z) v2 = Some pv ->
    cxx_eval E (r_expr rp) = Some pv /\ r_ty rp = TDouble /\ pv = VDbl (fdiv (of_Z z) (at64 F of_Z v2)).
  Proof.
    intros [e2 t2] rp z E v2 pv [Hw1 Hw2] Hv He2 Ht2 Hn Hpy. simpl in *. subst t2.
    destruct v2 as [b2|z2|x2|x2|w2]; try discriminate Hn;
      vm_compute in Hv; inv Hv;
      unfold Arith.py_binop, py_is_zero, Arith.truthy in Hpy; simpl in Hpy;
      match type of Hpy with
      | (if negb (negb ?c) then _ else _) = _ => destruct c eqn:Hz; simpl in Hpy; [discriminate Hpy|]
      end; inv Hpy;
      simpl; rewrite He2, Hw1; unfold mk_long; rewrite Hw2; simpl; auto.
  Qed.

  (* comparisons with a wide literal are exact (compare_correct covers them: no type hypothesis) *)
End Proofs.

(* ------------------------------------------------------------------------------------------ *)
(* A concrete instance (rationals, exact) used only to exhibit counterexamples and non-vacuity *)
(* ------------------------------------------------------------------------------------------ *)
From Coq Require Import QArith.
Module QI.
  Definition F := Q.
  Definition dummy (a b : Q) : Q := a.
  Definition fzero (x : Q) : bool := Qeq_bool x 0.
  Definition fltb (a b : Q) : bool := negb (Qle_bool b a).
  Definition eval := cxx_eval Q Qplus Qminus Qmult Qdiv dummy dummy Qopp Qeq_bool fltb Qle_bool fzero inject_Z (fun x => x).
  Definition assign := cxx_assign Q Qplus Qminus Qmult Qdiv dummy dummy Qopp Qeq_bool fltb Qle_bool fzero inject_Z (fun x => x).
  Definition pybin := py_binop Q Qplus Qminus Qmult Qdiv dummy dummy dummy fzero inject_Z (fun x => x).
  Definition pyun := py_unary Q Qopp fzero.
  Definition widen := widen_to Q inject_Z (fun x => x).
  Definition den := denote Q Qplus Qminus Qmult Qdiv dummy dummy dummy Qopp Qeq_bool fltb Qle_bool fzero inject_Z (fun x => x).
  Definition E0 : env Q := fun s =>
    if String.eqb s "n" then Some (VInt 3) else if String.eqb s "x" then Some (VDbl (5 # 2))
    else if String.eqb s "f" then Some (VFlt (7 # 2)) else if String.eqb s "b" then Some (VBool true) else None.
End QI.

(* the emission used before the fix - "(l/r)" typed double with no cast - is wrong: 3/2 *)
Lemma int_div_uncast_refuted :
  exists (E : env Q) (e1 e2 : cexpr) (v1 v2 pv : val Q),
    QI.eval E e1 = Some v1 /\ type_of v1 = TInt /\ QI.eval E e2 = Some v2 /\ type_of v2 = TInt /\
    QI.pybin Div v1 v2 = Some pv /\
    QI.assign E TDouble (EBin "/" e1 e2) <> Some pv.
Proof.
  exists QI.E0, (ELeaf "n"), (EInt 2), (VInt 3), (VInt 2), (VDbl (3 # 2)).
  repeat split; try reflexivity. vm_compute. intro H. discriminate H.
Qed.

(* '%' with a floating operand: accepted, typed, and ill-formed *)
Lemma mod_floating_refuted :
  exists (E : env Q) (l r rp : rep) (v1 v2 pv : val Q),
    visit_BinOp Mod l r = OK rp /\
    QI.eval E (r_expr l) = Some v1 /\ type_of v1 = r_ty l /\
    QI.eval E (r_expr r) = Some v2 /\ type_of v2 = r_ty r /\
    QI.pybin Mod v1 v2 = Some pv /\
    QI.eval E (r_expr rp) = None.
Proof.
  exists QI.E0, (mk_rep (ELeaf "x") TDouble), (mk_rep (EInt 2) TInt),
         (mk_rep (EBin "%" (ELeaf "x") (EInt 2)) TDouble), (VDbl (5 # 2)), (VInt 2), (VDbl (5 # 2)).
  repeat split; reflexivity.
Qed.

(* a boolean operand: Python computes True + 1 = 2, the translator raises AssertionError *)
Lemma bool_operand_refuted :
  exists (l r : rep) (v1 v2 pv : val Q),
    type_of v1 = r_ty l /\ type_of v2 = r_ty r /\
    QI.pybin Add v1 v2 = Some pv /\ visit_BinOp Add l r = Error ErrAssert.
Proof.
  exists (mk_rep (EBool true) TBool), (mk_rep (EInt 1) TInt), (VBool true), (VInt 1), (VInt 2).
  repeat split; reflexivity.
Qed.

(* unary minus on a boolean is typed bool: the column holds true (1) where Python has -1 *)
Lemma unary_minus_bool_refuted :
  exists (E : env Q) (a rp : rep) (v pv : val Q),
    visit_UnaryOp USub a = OK rp /\ QI.eval E (r_expr a) = Some v /\ type_of v = r_ty a /\
    QI.pyun USub v = Some pv /\ pv = VInt (-1) /\
    QI.assign E (r_ty rp) (r_expr rp) = Some (VBool true) /\
    QI.widen (r_ty rp) pv = None.
Proof.
  exists QI.E0, (mk_rep (ELeaf "b") TBool), (mk_rep (EUn "-" (ELeaf "b")) TBool), (VBool true), (VInt (-1)).
  repeat split; reflexivity.
Qed.

(* a conditional between two ints is declared double: the integer does not stay an integer *)
Lemma conditional_int_refuted :
  exists (t b o : rep), r_ty b = TInt /\ r_ty o = TInt /\ i_ty (visit_IfExp t b o) <> TInt.
Proof.
  exists (mk_rep (EBool true) TBool), (mk_rep (EInt 1) TInt), (mk_rep (EInt 2) TInt).
  repeat split; try reflexivity. simpl. intro H. discriminate H.
Qed.

(* known finding c13:wide-int-literal-declared-int (C18's declared-int-too-narrow seen from C13):
   n + 4294967296 is declared int; the C++ value 4294967299 (a long) is stored in an int column as 3 *)
Lemma wide_literal_refuted :
  exists (E : env Q) (l rp : rep) (v1 pv : val Q),
    visit_BinOp Add l (visit_Constant_int 4294967296) = OK rp /\
    QI.eval E (r_expr l) = Some v1 /\ type_of v1 = r_ty l /\
    QI.pybin Add v1 (VInt 4294967296) = Some pv /\ pv = VInt 4294967299 /\
    r_ty rp = TInt /\ QI.eval E (r_expr rp) = Some (VLong 4294967299) /\
    QI.assign E (r_ty rp) (r_expr rp) = Some (VInt 3).
Proof.
  exists QI.E0, (mk_rep (ELeaf "n") TInt), (mk_rep (EBin "+" (ELeaf "n") (EInt 4294967296)) TInt), (VInt 3), (VInt 4294967299).
  repeat split; reflexivity.
Qed.
