(* Generic facts about Model/MathFuncs.v, valid for every table. *)
From FV Require Import Base.Prelude Model.MathFuncs.

Definition doc_spec (E : menv) (n : string) : Prop :=
  exists q r, resolve E n = RName q /\ lookup_row q (e_rows E) = Some r /\
    acceptable n (m_cpp r) = true /\ In "cmath" (m_inc r) /\ m_ret r = "double" /\
    callable_from_query n = true.

Lemma mem_str_In' x l : mem_str x l = true -> In x l.
Proof.
  induction l as [|y l IH]; cbn; [discriminate|].
  destruct (String.eqb_spec x y) as [->|]; auto.
Qed.

Lemma doc_ok_spec E n : doc_ok E n = true -> doc_spec E n.
Proof.
  unfold doc_ok, find_row, doc_spec. destruct (resolve E n) as [q|] eqn:Er; [|discriminate].
  destruct (lookup_row q (e_rows E)) as [r|] eqn:El; [|discriminate].
  rewrite !andb_true_iff. intros [[[Ha Hi] Hr] Hc]. exists q, r.
  repeat split; auto. - now apply mem_str_In'. - now apply String.eqb_eq.
Qed.

Lemma all_doc_ok E doc : forallb (doc_ok E) doc = true -> Forall (doc_spec E) doc.
Proof.
  rewrite forallb_forall, Forall_forall. intros H n Hn. apply doc_ok_spec, H, Hn.
Qed.

(* the row that is found is the LAST mapping registered for the key (dict semantics) *)
Lemma lookup_row_last k rows r :
  lookup_row k rows = Some r ->
  exists pre post, rows = pre ++ r :: post /\ m_py r = k /\ forall r', In r' post -> m_py r' <> k.
Proof.
  revert r. induction rows as [|x rows IH]; cbn; [discriminate|]. intro r.
  destruct (lookup_row k rows) as [r'|] eqn:E.
  - intros [= <-]. destruct (IH _ eq_refl) as (pre & post & -> & Hk & Hp).
    exists (x :: pre), post. auto.
  - destruct (String.eqb_spec k (m_py x)) as [->|Hn]; [|discriminate]. intros [= <-].
    exists [], rows. split; [reflexivity|]. split; [reflexivity|].
    intros r' Hr' Heq. clear IH. induction rows as [|y rows IHr]; [destruct Hr'|].
    cbn in E. destruct (lookup_row (m_py x) rows) eqn:E'; [discriminate|].
    destruct (String.eqb_spec (m_py x) (m_py y)) as [He|Hne]; [discriminate|].
    destruct Hr' as [<-|Hr']; [congruence|auto].
Qed.

(* the emitted call is the mapped C++ name applied to the argument texts *)
Lemma emit_call_shape r args :
  emit_call r args = m_cpp r +++ "(" +++ join_str "," args +++ ")".
Proof. reflexivity. Qed.
