From FV Require Import Base.Prelude Model.Shell Proofs.ShellProofs gen.Runner_cms_r5.
From Coq Require Import Lia.

Definition B : backend := mkB pkg_cms slots_cms run_dir_cms ["mkedanlzr"; "scram"] "cmsRun" converted.

Definition base (cfg : config) (f : fs) (args : list string) : state :=
  match exec_cmds (fun _ => false) "" script_pre (init_state cfg f args) with
  | Cont s => set_var (set_var s script_var "") "OPTARG" "" | Exit _ s => s end.
Definition mk_of (b : state) (s : psum) : state :=
  set_var (set_var (set_var (set_var (set_var (set_var (set_var b
    "compile" (if s.(pr) then "0" else "1"))
    "run" (if s.(pc) then "0" else "1"))
    "input_method" (match s.(pd) with Some _ => "cmd" | None => "filelist" end))
    "input_file" (match s.(pd) with Some a => a | None => "" end))
    "output_dir" (match s.(po) with Some p => p | None => "/results" end))
    script_var s.(px)) "OPTARG" s.(py).

Definition after_loop (cfg : config) (f : fs) (args : list string) (s : psum) (k : nat) : state :=
  upd_last (upd_optind (mk_of (base cfg f args) s) k) 0.

(* Lemma A: the whole option loop is its summary *)
Lemma parse_summary : forall o n cfg f args,
  exec_cmds o n script (init_state cfg f args) =
  let ge := getopts_events "d:o:cr" args in
  let sb := summ p0 (fst ge) in
  if snd sb then exec_cmds o n script_rest (after_loop cfg f args (fst sb) (snd ge))
  else Exit 10 (mk_of (base cfg f args) (fst sb)).
Proof.
  intros o n [fld fll ent rel cvs cal] f args.
  unfold script. rewrite exec_capp.
  assert (Hpre : exec_cmds o n script_pre (init_state (mkConfig fld fll ent rel cvs cal) f args) =
                 Cont (match exec_cmds (fun _ => false) "" script_pre (init_state (mkConfig fld fll ent rel cvs cal) f args) with Cont s => s | Exit _ s => s end))
    by (vm_compute; reflexivity).
  rewrite Hpre. rewrite exec_cmds_cons.
  set (st1 := match exec_cmds (fun _ => false) "" script_pre (init_state (mkConfig fld fll ent rel cvs cal) f args) with Cont s => s | Exit _ s => s end).
  change (exec_cmd o n (CGetopts script_os script_var script_arms) st1) with
    (match run_events script_var (exec_arms o n script_arms) (fst (getopts_events script_os st1.(pos)))
             (set_var (set_var st1 script_var "") "OPTARG" "") with
     | Cont s1 => finish (upd_optind s1 (snd (getopts_events script_os st1.(pos)))) 0
     | e' => e'
     end).
  assert (Hpos : st1.(pos) = args) by (vm_compute; reflexivity).
  rewrite Hpos.
  assert (Hb : set_var (set_var st1 script_var "") "OPTARG" "" = mk_of (base (mkConfig fld fll ent rel cvs cal) f args) p0)
    by (vm_compute; reflexivity).
  rewrite Hb.
  change script_os with "d:o:cr".
  rewrite (loop_sum o n script_var script_arms (mk_of (base (mkConfig fld fll ent rel cvs cal) f args))).
  - cbv zeta. destruct (snd (summ p0 (fst (getopts_events "d:o:cr" args)))); reflexivity.
  - intros s a. unfold arm_goes; vm_compute; reflexivity.
  - intros s a. unfold arm_goes; vm_compute; reflexivity.
  - intros s a. unfold arm_goes; vm_compute; reflexivity.
  - intros s a. unfold arm_goes; vm_compute; reflexivity.
  - intros s. unfold arm_goes; vm_compute; reflexivity.
  - apply getopts_events_ev4.
Qed.

Definition rest'_of (hb : nat -> string) : cmds := match script_rest_of hb with CCons CShiftOpt r => r | _ => CNil end.
Definition rest' : cmds := rest'_of (fun i => nth i heredocs "").
Lemma rest_eq : script_rest = CCons CShiftOpt rest'.
Proof. reflexivity. Qed.

(* after the loop: shift, then the stray-argument test sees what is left of the command line *)
Lemma after_parse : forall o n cfg f args,
  invoke script cfg f args o n =
  let ge := getopts_events "d:o:cr" args in
  let sb := summ p0 (fst ge) in
  if snd sb then
    match exec_cmds o n rest' (upd_last (upd_pos (after_loop cfg f args (fst sb) (snd ge)) (skipn (snd ge) args)) 0) with
    | Cont st => mkResult st.(last) st
    | Exit c st => mkResult c st
    end
  else mkResult 10 (mk_of (base cfg f args) (fst sb)).
Proof.
  intros o n cfg f args. unfold invoke, run_script. rewrite parse_summary. cbv zeta.
  destruct (snd (summ p0 (fst (getopts_events "d:o:cr" args)))); [|reflexivity].
  rewrite rest_eq, exec_cmds_cons.
  assert (H : exec_cmd o n CShiftOpt (after_loop cfg f args (fst (summ p0 (fst (getopts_events "d:o:cr" args)))) (snd (getopts_events "d:o:cr" args))) =
              Cont (upd_last (upd_pos (after_loop cfg f args (fst (summ p0 (fst (getopts_events "d:o:cr" args)))) (snd (getopts_events "d:o:cr" args)))
                                      (skipn (snd (getopts_events "d:o:cr" args)) args)) 0)).
  { generalize (fst (summ p0 (fst (getopts_events "d:o:cr" args)))). generalize (snd (getopts_events "d:o:cr" args)).
    intros k s. vm_compute. reflexivity. }
  rewrite H. reflexivity.
Qed.

Lemma after_parse' : forall o n cfg f args,
  invoke script cfg f args o n =
  let ge := getopts_events "d:o:cr" args in
  let sb := summ p0 (fst ge) in
  if snd sb then
    run_script o n rest' (upd_last (upd_pos (after_loop cfg f args (fst sb) (snd ge)) (skipn (snd ge) args)) 0)
  else mkResult 10 (mk_of (base cfg f args) (fst sb)).
Proof. intros. apply after_parse. Qed.


(* the state in which the statements after the option loop start when nothing is left on the command line *)
Definition ST (cfg : config) (W : fs) (args : list string) (s : psum) (k0 : nat) : state :=
  upd_last (upd_pos (after_loop cfg W args s k0) []) 0.
Definition NB : nat := 12.      (* more than the steps of the longest run *)
Definition TB : nat := 6.      (* steps before this index do not depend on -d, -o or the destination *)

(* the environment switches a run reads before anything else *)
Definition all_env (cal0 : bool) (P : bool -> bool -> Prop) : Prop := all_b (fun rel => all_b (fun cal => P rel cal)).
Lemma all_env_elim : forall cal0 P, all_env cal0 P -> forall rel, P rel cal0.
Proof. intros cal0 P H rel. exact (all_b_elim _ (all_b_elim _ H rel) cal0). Qed.

Definition olist : list (option string) := None :: map Some dest_words.
Definition dest_ix (o' : option string) : nat :=
  match o' with
  | None => 0
  | Some p => if String.eqb p "/results" then 0 else if String.eqb p "/out2" then 1
              else if String.eqb p "/out2/named.root" then 2 else if String.eqb p "rel_out.root" then 3 else 4
  end.
Definition slot_val (i : nat) (o' : option string) (pv : bool) (vt : string) (ov : option string) : option string :=
  if Nat.eqb i (dest_ix o') then (if pv then Some vt else None) else ov.
Definition dsel_of (b : bool) (a : ascii) (f' : string) : option string := if b then Some (String a f') else None.

Section FreshTables.
Variables (fld fll ent cal cvs : bool) (ov1 ov2 ov3 d o' : option string) (args : list string) (x y n vt f' : string) (a : ascii) (k0 : nat).

(* -r in a package that was never built; -c alone; the build steps of a full run: none of these reads the
   -d / -o words, the file list or the destination *)
Lemma fresh_r : all_env cal (fun rel cal => all_b (fun c =>
  let cfg := mkConfig fld fll ent rel cvs cal in let W := fresh_world B cfg ov1 ov2 ov3 in
  caseP B c true d o' W n rest' (ST cfg W args (mkP c true d o' x y) k0) 3)).
Proof. solve_table. Qed.
Lemma fresh_c : all_env cal (fun rel cal =>
  let cfg := mkConfig fld fll ent rel cvs cal in let W := fresh_world B cfg ov1 ov2 ov3 in
  caseP B true false d o' W n rest' (ST cfg W args (mkP true false d o' x y) k0) 9).
Proof. solve_table. Qed.
Lemma fresh_ff_early : all_env cal (fun rel cal =>
  let cfg := mkConfig fld fll ent rel cvs cal in let W := fresh_world B cfg ov1 ov2 ov3 in
  all_lt TB (fun k => okK B false false d n W k (obs B W o' (run_script (single k) n rest' (ST cfg W args (mkP false false d o' x y) k0))))).
Proof. solve_table. Qed.
Definition ff_late_entry (rel fld' fll' cal' pv dsel : bool) (oi : nat) : Prop :=
  let o1 := nth oi olist None in let d1 := dsel_of dsel a f' in
  let cfg := mkConfig fld' fll' ent rel cvs cal' in
  let W := fresh_world B cfg (slot_val 0 o1 pv vt ov1) (slot_val 1 o1 pv vt ov2) (slot_val 2 o1 pv vt ov3) in
  let st := ST cfg W args (mkP false false d1 o1 x y) k0 in
  okN B false false d1 n W NB (obs B W o1 (run_script none n rest' st)) /\
  all_lt (NB - TB) (fun i => okK B false false d1 n W (TB + i) (obs B W o1 (run_script (single (TB + i)) n rest' st))).
Lemma fresh_ff_late :
  all_b (fun rel => all_b (fun fld' => all_b (fun fll' => all_b (fun cal' => all_b (fun pv => all_b (fun dsel =>
  all_lt 6 (fun oi => ff_late_entry rel fld' fll' cal' pv dsel oi))))))).
Proof. solve_table. Qed.
End FreshTables.

Definition ff_late_entry_goal fld fll rel ent cal cvs v1 v2 v3 d o' args x y n k0 : Prop :=
  let cfg := mkConfig fld fll ent rel cvs cal in let W := fresh_world B cfg v1 v2 v3 in
  let st := ST cfg W args (mkP false false d o' x y) k0 in
  okN B false false d n W NB (obs B W o' (run_script none n rest' st)) /\
  all_lt (NB - TB) (fun i => okK B false false d n W (TB + i) (obs B W o' (run_script (single (TB + i)) n rest' st))).

Lemma ST_steps : forall cfg W args s k0, steps (ST cfg W args s k0) = 0.
Proof. intros. vm_compute. reflexivity. Qed.

Ltac use_late H rel fld fll cal pv dsel oi :=
  apply all_b_elim with (b := rel) in H; apply all_b_elim with (b := fld) in H; apply all_b_elim with (b := fll) in H;
  apply all_b_elim with (b := cal) in H; apply all_b_elim with (b := pv) in H; apply all_b_elim with (b := dsel) in H;
  apply all_lt_elim with (k := oi) in H; [|lia].

Lemma fresh_ff : forall fld fll rel ent cal cvs v1 v2 v3 d o' args x y n k0,
  plain_d d -> known_o o' ->
  let cfg := mkConfig fld fll ent rel cvs cal in let W := fresh_world B cfg v1 v2 v3 in
  caseP B false false d o' W n rest' (ST cfg W args (mkP false false d o' x y) k0) NB.
Proof.
  intros fld fll rel ent cal cvs v1 v2 v3 d o' args x y n k0 Hd Ho. cbv zeta.
  pose proof (fresh_ff_early fld fll ent cal cvs v1 v2 v3 d o' args x y n k0) as HE.
  apply all_env_elim with (rel := rel) in HE. cbv zeta in HE.
  assert (HL : ff_late_entry_goal fld fll rel ent cal cvs v1 v2 v3 d o' args x y n k0).
  2:{ destruct HL as [HN HL]. split; [exact HN|]. apply all_lt_split with (T := TB); [exact HE|exact HL]. }
  unfold ff_late_entry_goal.
  destruct d as [[|a f']|]; [exfalso; apply Hd; reflexivity| |];
  (destruct o' as [p|]; [simpl in Ho; decompose [or] Ho; clear Ho; try contradiction; subst p|]).
  (* -d given *)
  - destruct v1 as [s|]; [pose proof (fresh_ff_late ent cvs None v2 v3 args x y n s f' a k0) as H; use_late H rel fld fll cal true true 1
                         |pose proof (fresh_ff_late ent cvs None v2 v3 args x y n "" f' a k0) as H; use_late H rel fld fll cal false true 1]; exact H.
  - destruct v2 as [s|]; [pose proof (fresh_ff_late ent cvs v1 None v3 args x y n s f' a k0) as H; use_late H rel fld fll cal true true 2
                         |pose proof (fresh_ff_late ent cvs v1 None v3 args x y n "" f' a k0) as H; use_late H rel fld fll cal false true 2]; exact H.
  - destruct v3 as [s|]; [pose proof (fresh_ff_late ent cvs v1 v2 None args x y n s f' a k0) as H; use_late H rel fld fll cal true true 3
                         |pose proof (fresh_ff_late ent cvs v1 v2 None args x y n "" f' a k0) as H; use_late H rel fld fll cal false true 3]; exact H.
  - pose proof (fresh_ff_late ent cvs v1 v2 v3 args x y n "" f' a k0) as H; use_late H rel fld fll cal true true 4; exact H.
  - pose proof (fresh_ff_late ent cvs v1 v2 v3 args x y n "" f' a k0) as H; use_late H rel fld fll cal true true 5; exact H.
  - destruct v1 as [s|]; [pose proof (fresh_ff_late ent cvs None v2 v3 args x y n s f' a k0) as H; use_late H rel fld fll cal true true 0
                         |pose proof (fresh_ff_late ent cvs None v2 v3 args x y n "" f' a k0) as H; use_late H rel fld fll cal false true 0]; exact H.
  (* no -d *)
  - destruct v1 as [s|]; [pose proof (fresh_ff_late ent cvs None v2 v3 args x y n s "" "a"%char k0) as H; use_late H rel fld fll cal true false 1
                         |pose proof (fresh_ff_late ent cvs None v2 v3 args x y n "" "" "a"%char k0) as H; use_late H rel fld fll cal false false 1]; exact H.
  - destruct v2 as [s|]; [pose proof (fresh_ff_late ent cvs v1 None v3 args x y n s "" "a"%char k0) as H; use_late H rel fld fll cal true false 2
                         |pose proof (fresh_ff_late ent cvs v1 None v3 args x y n "" "" "a"%char k0) as H; use_late H rel fld fll cal false false 2]; exact H.
  - destruct v3 as [s|]; [pose proof (fresh_ff_late ent cvs v1 v2 None args x y n s "" "a"%char k0) as H; use_late H rel fld fll cal true false 3
                         |pose proof (fresh_ff_late ent cvs v1 v2 None args x y n "" "" "a"%char k0) as H; use_late H rel fld fll cal false false 3]; exact H.
  - pose proof (fresh_ff_late ent cvs v1 v2 v3 args x y n "" "" "a"%char k0) as H; use_late H rel fld fll cal true false 4; exact H.
  - pose proof (fresh_ff_late ent cvs v1 v2 v3 args x y n "" "" "a"%char k0) as H; use_late H rel fld fll cal true false 5; exact H.
  - destruct v1 as [s|]; [pose proof (fresh_ff_late ent cvs None v2 v3 args x y n s "" "a"%char k0) as H; use_late H rel fld fll cal true false 0
                         |pose proof (fresh_ff_late ent cvs None v2 v3 args x y n "" "" "a"%char k0) as H; use_late H rel fld fll cal false false 0]; exact H.
Qed.

(* one invocation in a package that was never built *)
Lemma master_fresh : forall cfg v1 v2 v3 args o n,
  match classify args with Flags _ _ d o' => plain_d d /\ known_o o' | _ => True end ->
  spec B (classify args) (fresh_world B cfg v1 v2 v3) o n (invoke script cfg (fresh_world B cfg v1 v2 v3) args o n).
Proof.
  intros [fld fll ent rel cvs cal] v1 v2 v3 args o n. rewrite after_parse'. unfold classify. cbv zeta.
  generalize (snd (getopts_events "d:o:cr" args)). intros k0.
  generalize (summ p0 (fst (getopts_events "d:o:cr" args))). intros [s ok]. cbn [fst snd].
  destruct ok.
  2:{ intros _. split; [reflexivity|]. split; vm_compute; reflexivity. }
  destruct (skipn k0 args) as [|a l].
  2:{ intros _. split; [|split]; vm_compute; reflexivity. }
  destruct s as [c r d o' x y]. cbn [pc pr pd po]. intros [Hd Ho].
  change (upd_last (upd_pos (after_loop (mkConfig fld fll ent rel cvs cal) (fresh_world B (mkConfig fld fll ent rel cvs cal) v1 v2 v3) args (mkP c r d o' x y) k0) []) 0)
    with (ST (mkConfig fld fll ent rel cvs cal) (fresh_world B (mkConfig fld fll ent rel cvs cal) v1 v2 v3) args (mkP c r d o' x y) k0).
  destruct r.
  - apply spec_from_caseP with (N := 3); [apply ST_steps|].
    pose proof (fresh_r fld fll ent cal cvs v1 v2 v3 d o' args x y n k0) as H.
    apply all_env_elim with (rel := rel) in H. apply all_b_elim with (b := c) in H. exact H.
  - destruct c.
    + apply spec_from_caseP with (N := 9); [apply ST_steps|].
      pose proof (fresh_c fld fll ent cal cvs v1 v2 v3 d o' args x y n k0) as H.
      apply all_env_elim with (rel := rel) in H. exact H.
    + apply spec_from_caseP with (N := NB); [apply ST_steps|]. apply fresh_ff; assumption.
Qed.
