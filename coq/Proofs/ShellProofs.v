(* C16 - generic lemmas about the shell model: sequencing, the letters getopts can report, the summary of
   a getopts loop whose arms only record their option, and the specification of one invocation. *)
From FV Require Import Base.Prelude Model.Shell.
From Coq Require Import Lia.

(* ---------- sequencing ---------- *)
Lemma exec_cmds_cons : forall (o : nat -> bool) (n : string) (c : cmd) (r : cmds) (st : state),
  exec_cmds o n (CCons c r) st = match exec_cmd o n c st with Cont st1 => exec_cmds o n r st1 | e => e end.
Proof. intros. destruct r; reflexivity. Qed.

Lemma exec_capp : forall (o : nat -> bool) (n : string) (a b : cmds) (st : state),
  exec_cmds o n (capp a b) st = match exec_cmds o n a st with Cont st' => exec_cmds o n b st' | e => e end.
Proof.
  intros o n a. induction a as [|c r IH]; intros b st.
  - reflexivity.
  - change (capp (CCons c r) b) with (CCons c (capp r b)). rewrite !exec_cmds_cons.
    destruct (exec_cmd o n c st) as [st1|code st1]; [apply IH|reflexivity].
Qed.

(* ---------- which events getopts can report ---------- *)
Definition ev_ok (os : string) (e : gev) : Prop :=
  match e with GOpt c _ => exists ch b, c = String ch "" /\ opt_kind os ch = Some b | GBad => True end.

Lemma scan_chars_ok : forall os cs,
  Forall (ev_ok os) (fst (scan_chars os cs)) /\
  (forall c, snd (scan_chars os cs) = Some c -> exists ch, c = String ch "" /\ opt_kind os ch = Some true).
Proof.
  intros os cs. induction cs as [|c r [IH1 IH2]]; simpl.
  - split; [constructor|discriminate].
  - destruct (opt_kind os c) as [[|]|] eqn:Hk.
    + destruct r as [|c2 r2].
      * simpl. split; [constructor|]. intros c0 H0. inversion H0. exists c. split; [reflexivity|exact Hk].
      * simpl. split; [|discriminate]. constructor; [|constructor]. exists c, true. split; [reflexivity|exact Hk].
    + destruct (scan_chars os r) as [e p] eqn:Hs. simpl in *. split; [|exact IH2].
      constructor; [|exact IH1]. exists c, false. split; [reflexivity|exact Hk].
    + destruct (scan_chars os r) as [e p] eqn:Hs. simpl in *. split; [|exact IH2].
      constructor; [exact I|exact IH1].
Qed.

Lemma getopts_events_ok : forall os args, Forall (ev_ok os) (fst (getopts_events os args)).
Proof.
  intros os. fix IH 1. intros args. destruct args as [|w rest]; [constructor|].
  simpl. destruct w as [|c0 cs]; [constructor|].
  destruct (Ascii.eqb c0 "-"%char) eqn:Hc0.
  - apply Ascii.eqb_eq in Hc0. subst c0.
    destruct cs as [|c1 cs1]; [constructor|].
    assert (Hgen : Forall (ev_ok os) (fst (
      let '(evs, pend) := scan_chars os (String c1 cs1) in
      match pend with
      | None => let '(e2, n) := getopts_events os rest in (evs ++ e2, S n)
      | Some c => match rest with
                  | a :: rest' => let '(e2, n) := getopts_events os rest' in (evs ++ GOpt c a :: e2, S (S n))
                  | [] => (evs ++ [GBad], 1)
                  end
      end))).
    { destruct (scan_chars_ok os (String c1 cs1)) as [H1 H2].
      destruct (scan_chars os (String c1 cs1)) as [evs pend]. simpl in H1, H2.
      destruct pend as [c|].
      - destruct (H2 c eq_refl) as [ch [Hc Hk]].
        destruct rest as [|a rest'].
        + simpl. apply Forall_app. split; [exact H1|]. constructor; [exact I|constructor].
        + pose proof (IH rest') as H3. destruct (getopts_events os rest') as [e2 n]. simpl in *.
          apply Forall_app. split; [exact H1|]. constructor; [|exact H3]. exists ch, true. split; assumption.
      - pose proof (IH rest) as H3. destruct (getopts_events os rest) as [e2 n]. simpl in *.
        apply Forall_app. split; assumption. }
    destruct (Ascii.eqb c1 "-"%char) eqn:Hc1.
    + apply Ascii.eqb_eq in Hc1. subst c1. destruct cs1 as [|c2 cs2]; [constructor|]. exact Hgen.
    + destruct c1 as [b0 b1 b2 b3 b4 b5 b6 b7].
      destruct b0, b1, b2, b3, b4, b5, b6, b7; try exact Hgen; simpl in Hc1; discriminate.
  - destruct c0 as [b0 b1 b2 b3 b4 b5 b6 b7].
    destruct b0, b1, b2, b3, b4, b5, b6, b7; try constructor; simpl in Hc0; discriminate.
Qed.

Lemma opt_kind_in : forall os ch b, opt_kind os ch = Some b -> In ch (list_ascii_of_string os) /\ ch <> ":"%char.
Proof.
  induction os as [|a r IH]; intros ch b H; simpl in H; [discriminate|].
  destruct (Ascii.eqb a ch) eqn:Ha.
  - apply Ascii.eqb_eq in Ha. subst a. destruct (Ascii.eqb ch ":"%char) eqn:Hc; [discriminate|].
    split; [left; reflexivity|]. intros Hx. subst ch. discriminate.
  - destruct (IH ch b H) as [H1 H2]. split; [right; exact H1|exact H2].
Qed.

(* the option letters of the three scripts *)
Definition ev4 (e : gev) : Prop :=
  match e with GOpt c _ => c = "d" \/ c = "o" \/ c = "c" \/ c = "r" | GBad => True end.
Lemma ev_ok_ev4 : forall e, ev_ok "d:o:cr" e -> ev4 e.
Proof.
  intros [c a|]; [|trivial]. intros [ch [b [Hc Hk]]]. subst c.
  destruct (opt_kind_in _ _ _ Hk) as [Hin Hne]. simpl in Hin.
  destruct Hin as [H|[H|[H|[H|[H|[H|[]]]]]]]; subst ch; simpl; auto; exfalso; apply Hne; reflexivity.
Qed.
Lemma getopts_events_ev4 : forall args, Forall ev4 (fst (getopts_events "d:o:cr" args)).
Proof.
  intros args. eapply Forall_impl; [apply ev_ok_ev4|apply getopts_events_ok].
Qed.

(* ---------- what a command line asks for ---------- *)
Record psum := mkP { pc : bool; pr : bool; pd : option string; po : option string; px : string; py : string }.
Definition p0 : psum := mkP false false None None "" "".
Definition bad_of (s : psum) : psum := mkP s.(pc) s.(pr) s.(pd) s.(po) "?" "".
Definition step_sum (s : psum) (e : gev) : option psum :=
  match e with
  | GBad => None
  | GOpt c a =>
    if String.eqb c "d" then Some (mkP s.(pc) s.(pr) (Some a) s.(po) c a)
    else if String.eqb c "o" then Some (mkP s.(pc) s.(pr) s.(pd) (Some a) c a)
    else if String.eqb c "c" then Some (mkP true s.(pr) s.(pd) s.(po) c a)
    else if String.eqb c "r" then Some (mkP s.(pc) true s.(pd) s.(po) c a)
    else None
  end.
Fixpoint summ (s : psum) (evs : list gev) : psum * bool :=
  match evs with
  | [] => (s, true)
  | e :: r => match step_sum s e with Some s' => summ s' r | None => (bad_of s, false) end
  end.

(* the classification of a command line used by the theorems: unknown flag (or missing option
   argument), stray argument, or a flag set *)
Inductive cls := Unknown | Stray | Flags (c r : bool) (d o : option string).
Definition classify (args : list string) : cls :=
  let ge := getopts_events "d:o:cr" args in
  let sb := summ p0 (fst ge) in
  if snd sb then
    match skipn (snd ge) args with
    | [] => Flags (fst sb).(pc) (fst sb).(pr) (fst sb).(pd) (fst sb).(po)
    | _ => Stray
    end
  else Unknown.
(* the canonical spelling of a flag set *)
Definition flag_args (c r : bool) (d o : option string) : list string :=
  (if c then ["-c"] else []) ++ (if r then ["-r"] else []) ++
  match d with Some f => ["-d"; f] | None => [] end ++ match o with Some p => ["-o"; p] | None => [] end.
Lemma classify_flag_args : forall c r d o, classify (flag_args c r d o) = Flags c r d o.
Proof. intros [|] [|] [f|] [p|]; reflexivity. Qed.

(* ---------- a getopts loop whose arms only record their option ---------- *)
Section Loop.
Variables (oracle : nat -> bool) (nonce var : string) (A : arms) (mk : psum -> state).
Definition arm_goes (c a : string) (s : psum) (out : outcome) : Prop :=
  match exec_arms oracle nonce A c with
  | Some f => f (set_var (set_var (mk s) var c) "OPTARG" a) = out
  | None => False
  end.
Hypothesis Hd : forall s a, arm_goes "d" a s (Cont (mk (mkP s.(pc) s.(pr) (Some a) s.(po) "d" a))).
Hypothesis Ho : forall s a, arm_goes "o" a s (Cont (mk (mkP s.(pc) s.(pr) s.(pd) (Some a) "o" a))).
Hypothesis Hc : forall s a, arm_goes "c" a s (Cont (mk (mkP true s.(pr) s.(pd) s.(po) "c" a))).
Hypothesis Hr : forall s a, arm_goes "r" a s (Cont (mk (mkP s.(pc) true s.(pd) s.(po) "r" a))).
Hypothesis Hbad : forall s, arm_goes "?" "" s (Exit 10 (mk (bad_of s))).

Lemma loop_sum : forall evs s, Forall ev4 evs ->
  run_events var (exec_arms oracle nonce A) evs (mk s) =
  if snd (summ s evs) then Cont (mk (fst (summ s evs))) else Exit 10 (mk (fst (summ s evs))).
Proof.
  induction evs as [|e r IH]; intros s Hall.
  - reflexivity.
  - inversion Hall as [|e' r' He Hr']; subst.
    destruct e as [c a|].
    + simpl in He. simpl run_events.
      destruct He as [H|[H|[H|H]]]; subst c.
      * pose proof (Hd s a) as H. unfold arm_goes in H. destruct (exec_arms oracle nonce A "d"); [|contradiction].
        rewrite H. simpl. apply IH. exact Hr'.
      * pose proof (Ho s a) as H. unfold arm_goes in H. destruct (exec_arms oracle nonce A "o"); [|contradiction].
        rewrite H. simpl. apply IH. exact Hr'.
      * pose proof (Hc s a) as H. unfold arm_goes in H. destruct (exec_arms oracle nonce A "c"); [|contradiction].
        rewrite H. simpl. apply IH. exact Hr'.
      * pose proof (Hr s a) as H. unfold arm_goes in H. destruct (exec_arms oracle nonce A "r"); [|contradiction].
        rewrite H. simpl. apply IH. exact Hr'.
    + simpl run_events. pose proof (Hbad s) as H. unfold arm_goes in H.
      destruct (exec_arms oracle nonce A "?"); [|contradiction]. rewrite H. reflexivity.
Qed.
End Loop.

(* ---------- a run depends on the fault oracle only through the steps it takes ---------- *)
Definition st_of (out : outcome) : state := match out with Cont s => s | Exit _ s => s end.
Definition agree (o1 o2 : nat -> bool) (a b : nat) : Prop := forall i, a <= i -> i < b -> o1 i = o2 i.

Section Agree.
Variables (o1 o2 : nat -> bool) (n : string).

(* a state transformer run under o1 / under o2: it only moves the step counter forward, and gives the
   same outcome when the oracles agree on the steps it takes *)
Definition rel_f (f1 f2 : state -> outcome) : Prop :=
  forall st, steps st <= steps (st_of (f1 st)) /\
             (agree o1 o2 (steps st) (steps (st_of (f1 st))) -> f2 st = f1 st).

Lemma finish_steps : forall st x, steps (st_of (finish st x)) = steps st.
Proof. intros st [|x]; simpl; [reflexivity|]. destruct (errexit st); reflexivity. Qed.

Lemma rel_seq : forall f1 f2 g1 g2, rel_f f1 f2 -> rel_f g1 g2 ->
  rel_f (fun st => match f1 st with Cont s => g1 s | e => e end) (fun st => match f2 st with Cont s => g2 s | e => e end).
Proof.
  intros f1 f2 g1 g2 Hf Hg st. destruct (Hf st) as [Hm He].
  destruct (f1 st) as [s1|c s1] eqn:E1; simpl in *.
  - destruct (Hg s1) as [Hm2 He2]. split; [lia|]. intros Ha.
    rewrite He; [|intros i H1 H2; apply Ha; lia]. apply He2. intros i H1 H2; apply Ha; lia.
  - split; [exact Hm|]. intros Ha. rewrite He; [reflexivity|exact Ha].
Qed.

Lemma rel_same : forall f, (forall st, steps st <= steps (st_of (f st))) -> rel_f f f.
Proof. intros f H st. split; [apply H|reflexivity]. Qed.

Lemma run_tool_rel : forall argv, rel_f (fun st => run_tool o1 n st argv) (fun st => run_tool o2 n st argv).
Proof.
  intros argv st. unfold run_tool. destruct argv as [|name args].
  - rewrite finish_steps. split; [lia|reflexivity].
  - destruct (negb (mem_str name known_tools)).
    + simpl. split; [lia|reflexivity].
    + assert (Hs : forall x, steps (st_of x) = S (steps st) -> steps st <= steps (st_of x)) by (intros; lia).
      destruct (o1 (steps st)) eqn:E1.
      * rewrite finish_steps. simpl. split; [lia|]. intros Ha.
        rewrite <- (Ha (steps st)); [rewrite E1; reflexivity|lia|lia].
      * destruct (tool_effect n st name args); try rewrite finish_steps; simpl; (split; [lia|]); intros Ha;
          rewrite <- (Ha (steps st)); try rewrite E1; try reflexivity; lia.
Qed.

Lemma run_source_rel : forall w, rel_f (fun st => run_source o1 st w) (fun st => run_source o2 st w).
Proof.
  intros w st. unfold run_source.
  destruct (expand_word st w) as [|s [|s2 l]]; try (simpl; split; [lia|reflexivity]).
  destruct (negb (has_slash s)); [simpl; split; [lia|reflexivity]|].
  destruct (res st s) as [p|]; [|rewrite finish_steps; split; [lia|reflexivity]].
  destruct (fs_get (fsys st) p) as [[|c]|]; try (rewrite finish_steps; split; [lia|reflexivity]).
  assert (Hgo : forall tag (eff : state -> state), (forall s1, steps (eff s1) = steps s1) ->
     steps st <= steps (st_of (if o1 (steps st) then finish (take_step st [tag]) 1 else finish (eff (take_step st [tag])) 0)) /\
     (agree o1 o2 (steps st) (steps (st_of (if o1 (steps st) then finish (take_step st [tag]) 1 else finish (eff (take_step st [tag])) 0))) ->
      (if o2 (steps st) then finish (take_step st [tag]) 1 else finish (eff (take_step st [tag])) 0) =
      (if o1 (steps st) then finish (take_step st [tag]) 1 else finish (eff (take_step st [tag])) 0))).
  { intros tag eff Heff. destruct (o1 (steps st)) eqn:E1; rewrite finish_steps; try rewrite Heff; simpl;
      (split; [lia|]); intros Ha; rewrite <- (Ha (steps st)); try rewrite E1; try reflexivity; lia. }
  destruct (String.eqb c sourced_release).
  { exact (Hgo "source:release" (fun s1 => upd_exported (set_var s1 "AnalysisBaseExternals_PLATFORM" "x86_64") ("AnalysisBaseExternals_PLATFORM" :: exported s1)) (fun _ => eq_refl)). }
  destruct (String.eqb c sourced_setup).
  { exact (Hgo "source:setup" (fun s1 => s1) (fun _ => eq_refl)). }
  destruct (String.eqb c sourced_entry).
  { exact (Hgo "source:entry" (fun s1 => upd_exported (set_var s1 "CVSROOT" "cms") ("CVSROOT" :: exported s1)) (fun _ => eq_refl)). }
  simpl. split; [lia|reflexivity].
Qed.

Lemma run_events_rel : forall var b1 b2,
  (forall c, match b1 c, b2 c with Some f1, Some f2 => rel_f f1 f2 | None, None => True | _, _ => False end) ->
  forall evs, rel_f (run_events var b1 evs) (run_events var b2 evs).
Proof.
  intros var b1 b2 Hb evs. induction evs as [|e r IH]; intros st.
  - simpl. split; [lia|reflexivity].
  - simpl. set (ca := match e with GOpt c a => (c, a) | GBad => ("?", "") end).
    set (st1 := set_var (set_var st var (fst ca)) "OPTARG" (snd ca)).
    assert (Hst1 : steps st1 = steps st) by reflexivity.
    specialize (Hb (fst ca)). destruct (b1 (fst ca)) as [f1|], (b2 (fst ca)) as [f2|]; try contradiction.
    + exact (rel_seq f1 f2 _ _ Hb IH st1).
    + exact (IH st1).
Qed.

Scheme cmd_mut := Induction for cmd Sort Prop
  with cmds_mut := Induction for cmds Sort Prop
  with branches_mut := Induction for branches Sort Prop
  with arms_mut := Induction for arms Sort Prop.
Combined Scheme shell_mutind from cmd_mut, cmds_mut, branches_mut, arms_mut.


Section Unfold.
Variables (o : nat -> bool).
Lemma ex_assign : forall v w st, exec_cmd o n (CAssign v w) st = finish (set_var st v (expand_str st w)) 0. Proof. reflexivity. Qed.
Lemma ex_scriptdir : forall v st, exec_cmd o n (CScriptDir v) st = finish (set_var st v (path_str st.(scriptdir))) 0. Proof. reflexivity. Qed.
Lemma ex_pwdto : forall v st, exec_cmd o n (CPwdTo v) st = finish (set_var st v (path_str st.(cwd))) 0. Proof. reflexivity. Qed.
Lemma ex_sete : forall st, exec_cmd o n CSetE st = finish (upd_errexit st true) 0. Proof. reflexivity. Qed.
Lemma ex_setx : forall st, exec_cmd o n CSetX st = finish st 0. Proof. reflexivity. Qed.
Lemma ex_shift : forall st, exec_cmd o n CShiftOpt st = finish (upd_pos st (skipn st.(optind) st.(pos))) 0. Proof. reflexivity. Qed.
Lemma ex_export : forall v w st, exec_cmd o n (CExport v w) st = finish (upd_exported (set_var st v (expand_str st w)) (v :: st.(exported))) 0. Proof. reflexivity. Qed.
Lemma ex_echo : forall ws redir st, exec_cmd o n (CEcho ws redir) st =
  match redir with
  | None => finish st 0
  | Some t => match expand_word st t with
              | [s] => match write_s st st.(fsys) s (join_str " " (expand_words st ws) +++ nl) with
                       | Some f => finish (upd_fs st f) 0 | None => finish st 1 end
              | _ => finish st 1 end
  end. Proof. reflexivity. Qed.
Lemma ex_cd : forall w st, exec_cmd o n (CCd w) st =
  match expand_word st w with
  | [s] => match res st s with
           | Some p => if is_dir st.(fsys) p then finish (upd_cwd st p) 0 else finish st 1
           | None => unmod st end
  | _ => unmod st end. Proof. reflexivity. Qed.
Lemma ex_eval : forall v lit c st, exec_cmd o n (CEval v lit c) st = if String.eqb (get_var st v) lit then exec_cmd o n c st else unmod st.
Proof. reflexivity. Qed.
Lemma ex_heredoc : forall target body st, exec_cmd o n (CHeredoc target body) st =
  match expand_word st target with
  | [s] => match write_s st st.(fsys) s "" with
           | None => finish st 1
           | Some f0 => if o st.(steps) then finish (take_step (upd_fs st f0) ["cat"]) 1
                        else finish (upd_fs (take_step (upd_fs st f0) ["cat"]) (opt_or (write_s st f0 s body) f0)) 0
           end
  | _ => finish st 1 end. Proof. reflexivity. Qed.
Lemma ex_getopts : forall os var a st, exec_cmd o n (CGetopts os var a) st =
  match run_events var (exec_arms o n a) (fst (getopts_events os st.(pos))) (set_var (set_var st var "") "OPTARG" "") with
  | Cont st1 => finish (upd_optind st1 (snd (getopts_events os st.(pos)))) 0
  | e' => e' end. Proof. reflexivity. Qed.
Lemma ex_if : forall b e st, exec_cmd o n (CIf b e) st = exec_branches o n b (exec_cmds o n e) st. Proof. reflexivity. Qed.
Lemma ex_bnil : forall els st, exec_branches o n BNil els st = els (upd_last st 0). Proof. reflexivity. Qed.
Lemma ex_bcons : forall t body r els st, exec_branches o n (BCons t body r) els st =
  match eval_test st t with None => unmod st | Some true => exec_cmds o n body (upd_last st 0) | Some false => exec_branches o n r els st end.
Proof. reflexivity. Qed.
End Unfold.

Ltac fin := try rewrite !finish_steps; simpl; try lia; try (destruct (errexit _); simpl; lia).
Ltac nostep lem := apply rel_same; intros st; rewrite lem; fin.
Ltac same_out := split; [fin|reflexivity].

Lemma exec_rel :
  (forall c, rel_f (exec_cmd o1 n c) (exec_cmd o2 n c)) /\
  (forall l, rel_f (exec_cmds o1 n l) (exec_cmds o2 n l)) /\
  (forall b, forall e1 e2, rel_f e1 e2 -> rel_f (exec_branches o1 n b e1) (exec_branches o2 n b e2)) /\
  (forall a, forall c, match exec_arms o1 n a c, exec_arms o2 n a c with Some f1, Some f2 => rel_f f1 f2 | None, None => True | _, _ => False end).
Proof.
  apply shell_mutind.
  - intros v w. nostep ex_assign.
  - intros v. nostep ex_scriptdir.
  - intros v. nostep ex_pwdto.
  - nostep ex_sete.
  - nostep ex_setx.
  - nostep ex_shift.
  - intros k. apply rel_same. intros st. simpl. lia.
  - intros ws redir. apply rel_same. intros st. rewrite ex_echo. destruct redir as [t|]; [|fin].
    destruct (expand_word st t) as [|s [|s2 l]]; fin.
    destruct (write_s st (fsys st) s _); fin.
  - intros w. apply rel_same. intros st. rewrite ex_cd.
    destruct (expand_word st w) as [|s [|s2 l]]; fin.
    destruct (res st s) as [p|]; fin. destruct (is_dir (fsys st) p); fin.
  - intros w. apply run_source_rel.
  - intros v w. nostep ex_export.
  - intros v lit c IH st. rewrite !ex_eval. destruct (String.eqb (get_var st v) lit); [apply IH|same_out].
  - intros target body st. rewrite !ex_heredoc.
    destruct (expand_word st target) as [|s [|s2 l]]; try same_out.
    destruct (write_s st (fsys st) s "") as [f0|]; [|same_out].
    destruct (o1 (steps st)) eqn:E1; rewrite finish_steps; simpl; (split; [lia|]); intros Ha;
      rewrite <- (Ha (steps st)); try rewrite E1; try reflexivity; lia.
  - intros ws st. apply (run_tool_rel (expand_words st ws) st).
  - intros b IHb e IHe st. rewrite !ex_if. apply IHb. exact IHe.
  - intros os var a IHa st. rewrite !ex_getopts.
    assert (Hf : rel_f (fun s1 => finish (upd_optind s1 (snd (getopts_events os (pos st)))) 0)
                       (fun s1 => finish (upd_optind s1 (snd (getopts_events os (pos st)))) 0)).
    { apply rel_same. intros s1. fin. }
    exact (rel_seq _ _ _ _ (run_events_rel var _ _ IHa (fst (getopts_events os (pos st)))) Hf (set_var (set_var st var "") "OPTARG" "")).
  - intros st. simpl. split; [lia|reflexivity].
  - intros c IHc r IHr. intros st. rewrite !exec_cmds_cons.
    exact (rel_seq _ _ _ _ IHc IHr st).
  - intros e1 e2 He st. rewrite !ex_bnil. exact (He (upd_last st 0)).
  - intros t b IHb r IHr e1 e2 He st. rewrite !ex_bcons.
    destruct (eval_test st t) as [[|]|].
    + exact (IHb (upd_last st 0)).
    + apply IHr. exact He.
    + same_out.
  - intros c. simpl. exact I.
  - intros p b IHb r IHr c.
    change (exec_arms o1 n (ACons p b r) c) with (if pat_match p c then Some (exec_cmds o1 n b) else exec_arms o1 n r c).
    change (exec_arms o2 n (ACons p b r) c) with (if pat_match p c then Some (exec_cmds o2 n b) else exec_arms o2 n r c).
    destruct (pat_match p c); [exact IHb|apply IHr].
Qed.

Lemma run_agree : forall l st,
  agree o1 o2 (steps st) (steps (r_st (run_script o1 n l st))) -> run_script o2 n l st = run_script o1 n l st.
Proof.
  intros l st Ha. destruct exec_rel as [_ [H _]]. destruct (H l st) as [_ He]. unfold run_script in *.
  destruct (exec_cmds o1 n l st) as [s1|c s1] eqn:E1; simpl in *; rewrite (He Ha); reflexivity.
Qed.
End Agree.

(* ---------- the fault oracle matters only up to the first failing step ---------- *)
Definition none : nat -> bool := fun _ => false.
Definition single (k : nat) : nat -> bool := fun i => Nat.eqb i k.

Lemma first_failure : forall (o : nat -> bool) (N : nat),
  (forall i, i < N -> o i = false) \/ (exists k, k < N /\ o k = true /\ forall i, i < k -> o i = false).
Proof.
  intros o N. induction N as [|N IH].
  - left. intros i Hi. lia.
  - destruct IH as [IH|[k [Hk [Hok Hlt]]]].
    + destruct (o N) eqn:E.
      * right. exists N. split; [lia|]. split; [exact E|]. intros i Hi. apply IH. exact Hi.
      * left. intros i Hi. destruct (Nat.eq_dec i N) as [->|Hne]; [exact E|apply IH; lia].
    + right. exists k. split; [lia|]. split; assumption.
Qed.

(* a run under any oracle is the run under `none` or under `single k` for the first failing step k,
   provided the single-fault runs stop at their fault (which is what set -e gives and is checked by
   computation for each k below the length N of the fault-free run) *)
Lemma oracle_cases : forall (n : string) (l : cmds) (st : state) (o : nat -> bool) (N : nat),
  steps st = 0 ->
  steps (r_st (run_script none n l st)) <= N ->
  (forall k, k < N -> steps (r_st (run_script (single k) n l st)) <= S k) ->
  (run_script o n l st = run_script none n l st /\ forall i, i < N -> o i = false) \/
  (exists k, k < N /\ o k = true /\ (forall i, i < k -> o i = false) /\ run_script o n l st = run_script (single k) n l st).
Proof.
  intros n l st o N H0 HN Hs. destruct (first_failure o N) as [Hall|[k [Hk [Hok Hlt]]]].
  - left. split; [|exact Hall]. apply run_agree. rewrite H0. intros i _ Hi. unfold none. symmetry. apply Hall. lia.
  - right. exists k. split; [exact Hk|]. split; [exact Hok|]. split; [exact Hlt|]. apply run_agree. rewrite H0.
    intros i _ Hi. specialize (Hs k Hk). unfold single.
    destruct (Nat.eqb i k) eqn:E.
    + apply Nat.eqb_eq in E. subst i. symmetry. exact Hok.
    + apply Nat.eqb_neq in E. symmetry. apply Hlt. lia.
Qed.

(* ---------- specification of one invocation ---------- *)
Definition log_has (t : string) (l : list (list string)) : bool :=
  existsb (fun e => match e with _ :: n :: _ => String.eqb n t | _ => false end) l.
Definition log_has_any (ts : list string) (l : list (list string)) : bool := existsb (fun t => log_has t l) ts.
Definition log_has_all (ts : list string) (l : list (list string)) : bool := forallb (fun t => log_has t l) ts.

Record backend := mkB {
  b_pkg : list string; b_slots : list path; b_rundir : path;
  b_build : list string; b_job : string; b_out : string -> string }.
Definition dest_locs (B : backend) : list path := dest_slots ++ [B.(b_rundir) ++ ["rel_out.root"]].
Definition unchanged (locs : list path) (f f' : fs) : Prop := forall q, In q locs -> fs_get f' q = fs_get f q.
Definition input_of (d : option string) : string := match d with Some f => f +++ nl | None => default_filelist end.
Definition dest_word (o : option string) : string := match o with Some p => p | None => "/results" end.

(* the part of the specification of a flag set that does not mention the oracle *)
Definition specF (B : backend) (c rr : bool) (d o : option string) (f : fs) (nonce : string) (r : result) : Prop :=
  r.(r_st).(unmodelled) = false /\
  (rr = true -> log_has_any B.(b_build) r.(r_st).(tlog) = false) /\
  (c = true -> log_has B.(b_job) r.(r_st).(tlog) = false) /\
  (r.(r_exit) = 0 ->
     (rr = false -> log_has_all B.(b_build) r.(r_st).(tlog) = true) /\
     (c = false -> log_has B.(b_job) r.(r_st).(tlog) = true)) /\
  (r.(r_exit) = 0 -> c = false ->
     exists q, delivery f B.(b_rundir) (dest_word o) = Some q /\
               fs_get r.(r_st).(fsys) q = Some (File (B.(b_out) (job_output nonce (input_of d))))) /\
  (r.(r_exit) <> 0 -> unchanged (dest_locs B) f r.(r_st).(fsys)).

Definition spec (B : backend) (cl : cls) (f : fs) (oracle : nat -> bool) (nonce : string) (r : result) : Prop :=
  match cl with
  | Unknown => r.(r_exit) = 10 /\ r.(r_st).(tlog) = [] /\ r.(r_st).(fsys) = f
  | Stray => r.(r_exit) = 1 /\ r.(r_st).(tlog) = [] /\ r.(r_st).(fsys) = f
  | Flags c rr d o =>
    r.(r_st).(unmodelled) = false /\
    (rr = true -> log_has_any B.(b_build) r.(r_st).(tlog) = false) /\
    (c = true -> log_has B.(b_job) r.(r_st).(tlog) = false) /\
    (r.(r_exit) = 0 ->
       (rr = false -> log_has_all B.(b_build) r.(r_st).(tlog) = true) /\
       (c = false -> log_has B.(b_job) r.(r_st).(tlog) = true) /\
       (forall k, k < r.(r_st).(steps) -> oracle k = false)) /\
    (r.(r_exit) = 0 -> c = false ->
       exists q, delivery f B.(b_rundir) (dest_word o) = Some q /\
                 fs_get r.(r_st).(fsys) q = Some (File (B.(b_out) (job_output nonce (input_of d))))) /\
    (r.(r_exit) <> 0 -> unchanged (dest_locs B) f r.(r_st).(fsys))
  end.

(* words the theorems speak about *)
Definition plain_d (d : option string) : Prop := match d with Some f => f <> "" | None => True end.
Definition known_o (o : option string) : Prop := match o with Some p => In p dest_words | None => True end.

Definition set_slots (f : fs) (l : list (path * option node)) : fs :=
  fold_left (fun f' kv => fs_set f' (fst kv) (snd kv)) l f.
Definition ofile (v : option string) : option node := option_map File v.
(* a package that was never built; the three destination files hold anything or nothing *)
Definition fresh_world (B : backend) (cfg : config) (v1 v2 v3 : option string) : fs :=
  set_slots (init_fs B.(b_pkg) B.(b_slots) cfg) (combine dest_slots [ofile v1; ofile v2; ofile v3]).

Lemma by_run : forall (A : Type) (x : A) (P : A -> Prop), (forall r, r = x -> P r) -> P x.
Proof. intros A x P H. apply (H x eq_refl). Qed.

(* the specification under every oracle from the fault-free run and the single-fault runs *)
Lemma spec_by_cases : forall (B : backend) (c rr : bool) (d o' : option string) (W : fs) (n : string) (l : cmds) (st : state) (N : nat),
  steps st = 0 ->
  (steps (r_st (run_script none n l st)) <= N /\ specF B c rr d o' W n (run_script none n l st)) ->
  (forall k, k < N ->
     steps (r_st (run_script (single k) n l st)) <= S k /\ specF B c rr d o' W n (run_script (single k) n l st) /\
     (k < steps (r_st (run_script (single k) n l st)) -> r_exit (run_script (single k) n l st) <> 0)) ->
  forall o, spec B (Flags c rr d o') W o n (run_script o n l st).
Proof.
  intros B c rr d o' W n l st N H0 [HN HF] Hk o.
  destruct (oracle_cases n l st o N H0 HN (fun k H => proj1 (Hk k H))) as [[He Hall]|[k [Hlt [Hok [Hmin He]]]]]; rewrite He.
  - destruct HF as [F1 [F2 [F3 [F4 [F5 F6]]]]]. unfold spec.
    split; [exact F1|]. split; [exact F2|]. split; [exact F3|]. split; [|split; assumption].
    intros E0. destruct (F4 E0) as [G1 G2]. split; [exact G1|]. split; [exact G2|].
    intros i Hi. apply Hall. lia.
  - destruct (Hk k Hlt) as [Hs [[F1 [F2 [F3 [F4 [F5 F6]]]]] Hx]]. unfold spec.
    split; [exact F1|]. split; [exact F2|]. split; [exact F3|]. split; [|split; assumption].
    intros E0. destruct (F4 E0) as [G1 G2]. split; [exact G1|]. split; [exact G2|].
    intros i Hi. apply Hmin.
    destruct (Nat.lt_ge_cases k (steps (r_st (run_script (single k) n l st)))) as [Hin|Hout]; [exfalso; exact (Hx Hin E0)|lia].
Qed.

(* ---------- observations: the small part of a result the specification looks at ---------- *)
Definition obsT := (nat * nat * bool * bool * bool * bool * list (option node) * option node)%type.
Definition obs (B : backend) (W : fs) (o' : option string) (r : result) : obsT :=
  (r.(r_exit), r.(r_st).(steps), r.(r_st).(unmodelled),
   log_has_any B.(b_build) r.(r_st).(tlog), log_has_all B.(b_build) r.(r_st).(tlog), log_has B.(b_job) r.(r_st).(tlog),
   map (fs_get r.(r_st).(fsys)) (dest_locs B),
   match delivery W B.(b_rundir) (dest_word o') with Some q => fs_get r.(r_st).(fsys) q | None => None end).
Definition ob_exit (ob : obsT) : nat := let '(e, _, _, _, _, _, _, _) := ob in e.
Definition ob_steps (ob : obsT) : nat := let '(_, st, _, _, _, _, _, _) := ob in st.
Definition okO (B : backend) (c rr : bool) (d : option string) (nonce : string) (W : fs) (ob : obsT) : Prop :=
  let '(e, _, um, anyb, allb, job, dests, deliv) := ob in
  um = false /\ (rr = true -> anyb = false) /\ (c = true -> job = false) /\
  (e = 0 -> (rr = false -> allb = true) /\ (c = false -> job = true)) /\
  (e = 0 -> c = false -> deliv = Some (File (B.(b_out) (job_output nonce (input_of d))))) /\
  (e <> 0 -> dests = map (fs_get W) (dest_locs B)).

Lemma specF_obs : forall B c rr d o' W nonce r, okO B c rr d nonce W (obs B W o' r) -> specF B c rr d o' W nonce r.
Proof.
  intros B c rr d o' W nonce r. unfold okO, obs, specF.
  intros [H1 [H2 [H3 [H4 [H5 H6]]]]].
  split; [exact H1|]. split; [exact H2|]. split; [exact H3|]. split; [exact H4|]. split.
  - intros E0 Ec. specialize (H5 E0 Ec). destruct (delivery W (b_rundir B) (dest_word o')) as [q|]; [|discriminate H5].
    exists q. split; [reflexivity|exact H5].
  - intros En q Hq. specialize (H6 En). revert q Hq. generalize (dest_locs B) H6. clear.
    induction l as [|a l IH]; intros Hm q Hq; [contradiction|]. simpl in Hm. inversion Hm as [[Ha Hl]].
    destruct Hq as [<-|Hq]; [exact Ha|apply IH; assumption].
Qed.

Lemma spec_by_obs : forall (B : backend) (c rr : bool) (d o' : option string) (W : fs) (n : string) (l : cmds) (st : state) (N : nat),
  steps st = 0 ->
  (ob_steps (obs B W o' (run_script none n l st)) <= N /\ okO B c rr d n W (obs B W o' (run_script none n l st))) ->
  (forall k, k < N ->
     ob_steps (obs B W o' (run_script (single k) n l st)) <= S k /\ okO B c rr d n W (obs B W o' (run_script (single k) n l st)) /\
     (k < ob_steps (obs B W o' (run_script (single k) n l st)) -> ob_exit (obs B W o' (run_script (single k) n l st)) <> 0)) ->
  forall o, spec B (Flags c rr d o') W o n (run_script o n l st).
Proof.
  intros B c rr d o' W n l st N H0 [HN HF] Hk o. apply spec_by_cases with (N := N); [exact H0| |].
  - split; [exact HN|apply specF_obs; exact HF].
  - intros k Hlt. destruct (Hk k Hlt) as [A [Bk C]]. split; [exact A|]. split; [apply specF_obs; exact Bk|exact C].
Qed.

(* ---------- tables: the specification as a proposition that computes ---------- *)
(* okB computes to True, False or one equation between (possibly symbolic) contents *)
Definition okB (B : backend) (c rr : bool) (d : option string) (nonce : string) (W : fs) (ob : obsT) : Prop :=
  let '(e, _, um, anyb, allb, job, dests, deliv) := ob in
  if um then False else if rr && anyb then False else if c && job then False else
  match e with
  | O => if negb rr && negb allb then False else if negb c && negb job then False else
         if c then True else deliv = Some (File (B.(b_out) (job_output nonce (input_of d))))
  | S _ => dests = map (fs_get W) (dest_locs B)
  end.
Lemma okB_okO : forall B c rr d nonce W ob, okB B c rr d nonce W ob -> okO B c rr d nonce W ob.
Proof.
  intros B c rr d nonce W [[[[[[[e st] um] anyb] allb] job] dests] deliv]. unfold okB, okO.
  destruct um; [contradiction|]. destruct rr, anyb, c, job; simpl; try contradiction;
  destruct e as [|e]; destruct allb; simpl; try contradiction; intros H;
  repeat split; intros; try discriminate; try congruence; try assumption; try reflexivity.
Qed.
Definition okN (B : backend) (c rr : bool) (d : option string) (nonce : string) (W : fs) (N : nat) (ob : obsT) : Prop :=
  if Nat.leb (ob_steps ob) N then okB B c rr d nonce W ob else False.
Definition okK (B : backend) (c rr : bool) (d : option string) (nonce : string) (W : fs) (k : nat) (ob : obsT) : Prop :=
  if Nat.leb (ob_steps ob) (S k) && (negb (Nat.ltb k (ob_steps ob)) || negb (Nat.eqb (ob_exit ob) 0))
  then okB B c rr d nonce W ob else False.
Fixpoint all_lt (n : nat) (P : nat -> Prop) : Prop := match n with O => True | S m => all_lt m P /\ P m end.
Lemma all_lt_elim : forall n P, all_lt n P -> forall k, k < n -> P k.
Proof.
  induction n as [|n IH]; intros P H k Hk; [lia|]. destruct H as [H1 H2].
  destruct (Nat.eq_dec k n) as [->|Hne]; [exact H2|apply IH; [exact H1|lia]].
Qed.
Definition all_b (P : bool -> Prop) : Prop := P true /\ P false.
Lemma all_b_elim : forall P, all_b P -> forall b, P b.
Proof. intros P [H1 H2] [|]; assumption. Qed.
(* one entry: the fault-free run and every single-fault run of one command line in one world *)
Definition caseP (B : backend) (c rr : bool) (d o' : option string) (W : fs) (n : string) (l : cmds) (st : state) (N : nat) : Prop :=
  okN B c rr d n W N (obs B W o' (run_script none n l st)) /\
  all_lt N (fun k => okK B c rr d n W k (obs B W o' (run_script (single k) n l st))).
Lemma spec_from_caseP : forall B c rr d o' W n l st N,
  steps st = 0 -> caseP B c rr d o' W n l st N -> forall o, spec B (Flags c rr d o') W o n (run_script o n l st).
Proof.
  intros B c rr d o' W n l st N H0 [HN HK]. apply spec_by_obs with (N := N); [exact H0| |].
  - unfold okN in HN. destruct (Nat.leb (ob_steps (obs B W o' (run_script none n l st))) N) eqn:E; [|contradiction].
    apply Nat.leb_le in E. split; [exact E|apply okB_okO; exact HN].
  - intros k Hk. pose proof (all_lt_elim N _ HK k Hk) as H. unfold okK in H.
    destruct (Nat.leb (ob_steps (obs B W o' (run_script (single k) n l st))) (S k)) eqn:E1; [|contradiction].
    destruct (negb (Nat.ltb k (ob_steps (obs B W o' (run_script (single k) n l st)))) || negb (Nat.eqb (ob_exit (obs B W o' (run_script (single k) n l st))) 0)) eqn:E2; [|contradiction].
    simpl in H. apply Nat.leb_le in E1. split; [exact E1|]. split; [apply okB_okO; exact H|].
    intros Hlt He. apply Bool.orb_true_iff in E2. destruct E2 as [E2|E2].
    + apply Bool.negb_true_iff in E2. apply Nat.ltb_ge in E2. lia.
    + apply Bool.negb_true_iff in E2. apply Nat.eqb_neq in E2. contradiction.
Qed.
Ltac solve_table :=
  vm_compute;
  repeat match goal with
         | |- _ /\ _ => split
         | |- True => exact I
         | |- _ = _ => reflexivity
         end.

(* ---------- symbolic execution ---------- *)
(* Evaluate the observation of a run; when a variable of the world or of the command line blocks the
   evaluation, split on that variable in the (small) goal and start again; when the observation is a
   tuple, normalise the goal and finish. *)
Ltac plain_contra :=
  try (match goal with H : plain_d (Some EmptyString) |- _ => exfalso; apply H; reflexivity end).
Ltac split_dest :=
  match goal with
  | H : known_o (Some ?p) |- _ => is_var p; simpl in H; decompose [or] H; clear H; try contradiction; subst p
  end.
Ltac solve_small :=
  vm_compute; repeat split; intros;
  first [ reflexivity | discriminate | congruence | lia
        | match goal with H : _ < _ |- _ => exfalso; vm_compute in H; lia end ].
Ltac sym_obs :=
  lazymatch goal with
  | |- context [obs ?B ?W ?o' ?R] =>
    let t := eval vm_compute in (obs B W o' R) in
    lazymatch t with
    | pair _ _ => solve_small
    | _ => first [ match t with context [match ?x with _ => _ end] => is_var x; destruct x; plain_contra end
                 | split_dest ]; sym_obs
    end
  end.

(* the single-fault runs split at a step index T: below T (first lemma of a table) and from T on *)
Lemma all_lt_intro : forall N (P : nat -> Prop), (forall k, k < N -> P k) -> all_lt N P.
Proof. induction N as [|N IH]; intros P H; [exact I|]. split; [apply IH; intros; apply H; lia|apply H; lia]. Qed.
Lemma all_lt_split : forall T N (P : nat -> Prop),
  all_lt T P -> all_lt (N - T) (fun i => P (T + i)) -> all_lt N P.
Proof.
  intros T N P H1 H2. apply all_lt_intro. intros k Hk.
  destruct (Nat.lt_ge_cases k T) as [Hlt|Hge].
  - apply (all_lt_elim T P H1 k Hlt).
  - assert (Hx : k - T < N - T) by lia. pose proof (all_lt_elim (N - T) _ H2 (k - T) Hx) as H. simpl in H.
    replace (T + (k - T)) with k in H by lia. exact H.
Qed.
