(* Soundness of the static checkers of Cpp/Static.v with respect to the execution semantics Cpp/Exec.v. *)
From FV Require Import Base.Prelude Cpp.IR Cpp.Exec Cpp.Static.
From Coq Require Import Permutation.

Lemma is_nil_true : forall {A} (l : list A), is_nil l = true -> l = [].
Proof. intros A [|a l] H; [reflexivity|discriminate]. Qed.

Lemma app_nil2 : forall {A} (a b : list A), a ++ b = [] -> a = [] /\ b = [].
Proof. intros A a b H. apply app_eq_nil in H. exact H. Qed.

Lemma app_nil3 : forall {A} (a b c : list A), a ++ b ++ c = [] -> a = [] /\ b = [] /\ c = [].
Proof. intros A a b c H. apply app_eq_nil in H. destruct H as [Ha H]. apply app_eq_nil in H. tauto. Qed.

(* ------------------------------------------------------------------------------------------ *)
(* static environment vs dynamic frames, generic in the per-binding relation                   *)
(* ------------------------------------------------------------------------------------------ *)
Section Rel.
Variable rel : sentry -> binding -> Prop.
Hypothesis rel_name : forall e b, rel e b -> fst e = fst b.

Definition Rf (f : sframe) (g : frame) : Prop := Forall2 rel f g.
Definition R (G : senv) (M : sframe) (st : state) : Prop :=
  Forall2 Rf G (frames st) /\ Rf M (members st).

Lemma Rf_get : forall (f : sframe) (g : frame) (x : string), Rf f g ->
  match sget x f with
  | Some tc => exists tv, frame_get x g = Some tv /\ rel (x, tc) (x, tv)
  | None => frame_get x g = None
  end.
Proof.
  intros f g x H. induction H as [|e b f g Hr HF IH]; simpl; [reflexivity|].
  destruct e as [y tc]. destruct b as [y' tv]. pose proof (rel_name _ _ Hr) as Hn. simpl in Hn. subst y'.
  destruct (String.eqb x y) eqn:E.
  - apply String.eqb_eq in E. subst y. exists tv. split; [reflexivity|exact Hr].
  - exact IH.
Qed.

Lemma Rfs_get : forall (G : senv) (fs : list frame) (x : string), Forall2 Rf G fs ->
  match sgets x G with
  | Some tc => exists tv, frames_get x fs = Some tv /\ rel (x, tc) (x, tv)
  | None => frames_get x fs = None
  end.
Proof.
  intros G fs x H. induction H as [|f g G fs Hf HF IH]; simpl; [reflexivity|].
  pose proof (Rf_get f g x Hf) as H1. destruct (sget x f) as [tc|].
  - destruct H1 as [tv [H1 H2]]. rewrite H1. exists tv. split; [reflexivity|exact H2].
  - rewrite H1. exact IH.
Qed.

Lemma R_lookup : forall (G : senv) (M : sframe) (st : state) (x : string), R G M st ->
  match slookup x G M with
  | Some tc => exists tv, lookup x st = Some tv /\ rel (x, tc) (x, tv)
  | None => lookup x st = None
  end.
Proof.
  intros G M st x [HG HM]. unfold slookup, lookup.
  pose proof (Rfs_get G (frames st) x HG) as H1. destruct (sgets x G) as [tc|].
  - destruct H1 as [tv [H1 H2]]. rewrite H1. exists tv. split; [reflexivity|exact H2].
  - rewrite H1. pose proof (Rf_get M (members st) x HM) as H2. destruct (sget x M) as [tc|].
    + destruct H2 as [tv [H2 H3]]. rewrite H2. exists tv. split; [reflexivity|exact H3].
    + rewrite H2. reflexivity.
Qed.

Lemma R_bound : forall (G : senv) (M : sframe) (st : state) (x : string), R G M st ->
  bound x G M = true -> exists tc tv, slookup x G M = Some tc /\ lookup x st = Some tv /\ rel (x, tc) (x, tv).
Proof.
  intros G M st x HR Hb. unfold bound in Hb. pose proof (R_lookup G M st x HR) as H.
  destruct (slookup x G M) as [tc|]; [|discriminate].
  destruct H as [tv [H1 H2]]. exists tc, tv. auto.
Qed.

(* assignment: succeeds exactly on bound names and keeps the relation when the new value is acceptable
   for whatever static entry the binding is related to *)
Lemma Rf_set : forall (f : sframe) (g : frame) (x : string) (v' : value), Rf f g ->
  match frame_get x g with
  | Some (t, v) => (forall e, rel e (x, (t, v)) -> rel e (x, (t, v'))) ->
                   exists g', frame_set x v' g = Some g' /\ Rf f g'
  | None => frame_set x v' g = None
  end.
Proof.
  intros f g x v' H. induction H as [|e b f g Hr HF IH]; simpl; [reflexivity|].
  destruct b as [y [t w]]. destruct (String.eqb x y) eqn:E.
  - apply String.eqb_eq in E. subst y. intros Hok. eexists. split; [reflexivity|].
    constructor; [apply Hok; exact Hr|exact HF].
  - destruct (frame_get x g) as [[t0 v0]|].
    + intros Hok. destruct (IH Hok) as [g' [H1 H2]]. rewrite H1. eexists. split; [reflexivity|].
      constructor; assumption.
    + rewrite IH. reflexivity.
Qed.

Lemma Rfs_set : forall (G : senv) (fs : list frame) (x : string) (v' : value), Forall2 Rf G fs ->
  match frames_get x fs with
  | Some (t, v) => (forall e, rel e (x, (t, v)) -> rel e (x, (t, v'))) ->
                   exists fs', frames_set x v' fs = Some fs' /\ Forall2 Rf G fs'
  | None => frames_set x v' fs = None
  end.
Proof.
  intros G fs x v' H. induction H as [|f g G fs Hf HF IH]; simpl; [reflexivity|].
  pose proof (Rf_set f g x v' Hf) as H1. destruct (frame_get x g) as [[t v]|].
  - intros Hok. destruct (H1 Hok) as [g' [H2 H3]]. rewrite H2. eexists. split; [reflexivity|].
    constructor; assumption.
  - rewrite H1. destruct (frames_get x fs) as [[t v]|].
    + intros Hok. destruct (IH Hok) as [fs' [H2 H3]]. rewrite H2. eexists. split; [reflexivity|].
      constructor; assumption.
    + rewrite IH. reflexivity.
Qed.

Lemma R_assign : forall (G : senv) (M : sframe) (st : state) (x : string) (t : string) (v v' : value),
  R G M st -> lookup x st = Some (t, v) ->
  (forall e, rel e (x, (t, v)) -> rel e (x, (t, v'))) ->
  exists st', assign x v' st = Some st' /\ R G M st'.
Proof.
  intros G M st x t v v' [HG HM] Hl Hok. unfold lookup in Hl. unfold assign.
  pose proof (Rfs_set G (frames st) x v' HG) as H1. destruct (frames_get x (frames st)) as [[t0 v0]|].
  - inversion Hl; subst t0 v0. destruct (H1 Hok) as [fs' [H2 H3]]. rewrite H2.
    eexists. split; [reflexivity|]. split; simpl; assumption.
  - rewrite H1. pose proof (Rf_set M (members st) x v' HM) as H2. rewrite Hl in H2.
    destruct (H2 Hok) as [m' [H3 H4]]. rewrite H3. eexists. split; [reflexivity|]. split; simpl; assumption.
Qed.

Lemma R_declare : forall (f : sframe) (G : senv) (M : sframe) (st : state) (e : sentry) (x t : string) (v : value),
  R (f :: G) M st -> rel e (x, (t, v)) -> R ((f ++ [e]) :: G) M (declare x t v st).
Proof.
  intros f G M st e x t v [HG HM] Hr. unfold declare. inversion HG as [|f0 g G0 fs Hf HF E1 E2]; subst.
  split; simpl; [|exact HM]. constructor; [|exact HF].
  apply Forall2_app; [exact Hf|]. constructor; [exact Hr|constructor].
Qed.

Lemma R_push : forall (G : senv) (M : sframe) (st : state) (pre : sframe) (preb : frame),
  R G M st -> Rf pre preb ->
  R (pre :: G) M {| frames := preb :: frames st; members := members st; rows := rows st |}.
Proof. intros G M st pre preb [HG HM] Hp. split; simpl; [constructor; assumption|exact HM]. Qed.

Lemma R_pop : forall (f : sframe) (G : senv) (M : sframe) (st : state),
  R (f :: G) M st -> R G M (pop_frame st).
Proof.
  intros f G M st [HG HM]. inversion HG as [|f0 g G0 fs Hf HF E1 E2]; subst.
  split; simpl; [rewrite <- E2; simpl; exact HF|exact HM].
Qed.

Lemma R_rows : forall (G : senv) (M : sframe) (st : state) (rs : list (list value)),
  R G M st -> R G M {| frames := frames st; members := members st; rows := rs |}.
Proof. intros G M st rs [HG HM]. split; simpl; assumption. Qed.
End Rel.


(* ------------------------------------------------------------------------------------------ *)
(* induction principle: IR.sbs_mutind gives no hypothesis for the else block of SIf (it sits   *)
(* under `option`, a nested occurrence); this one does.                                        *)
(* ------------------------------------------------------------------------------------------ *)
Section Ind2.
Variables (P : stmt -> Prop) (P0 : block -> Prop) (P1 : stmts -> Prop).
Hypothesis h_set : forall x c e, P (SSet x c e).
Hypothesis h_push : forall x c e, P (SPush x c e).
Hypothesis h_clear : forall x, P (SClear x).
Hypothesis h_fill : forall l, P (SFill l).
Hypothesis h_throw : forall l, P (SThrow l).
Hypothesis h_fetch : forall i t c b l, P (SFetch i t c b l).
Hypothesis h_iota : forall v b, P (SIota v b).
Hypothesis h_user : forall l i t, P (SUser l i t).
Hypothesis h_line : forall l i, P (SLine l i).
Hypothesis h_for : forall x e b, P0 b -> P (SFor x e b).
Definition opt_P0 (els : option block) : Prop := match els with Some b2 => P0 b2 | None => True end.
Hypothesis h_if : forall c b, P0 b -> forall els, opt_P0 els -> P (SIf c b els).
Hypothesis h_blk : forall b, P0 b -> P (SBlk b).
Hypothesis h_block : forall ds body, P1 body -> P0 (Blk ds body).
Hypothesis h_nil : P1 SNil.
Hypothesis h_cons : forall s, P s -> forall r, P1 r -> P1 (SCons s r).

Fixpoint stmt_ind2 (s : stmt) : P s :=
  match s with
  | SSet x c e => h_set x c e
  | SPush x c e => h_push x c e
  | SClear x => h_clear x
  | SFill l => h_fill l
  | SThrow l => h_throw l
  | SFetch i t c b l => h_fetch i t c b l
  | SIota v b => h_iota v b
  | SUser l i t => h_user l i t
  | SLine l i => h_line l i
  | SFor x e b => h_for x e b (block_ind2 b)
  | SIf c b els => h_if c b (block_ind2 b) els
                     (match els as o return opt_P0 o with
                      | Some b2 => block_ind2 b2
                      | None => I
                      end)
  | SBlk b => h_blk b (block_ind2 b)
  end
with block_ind2 (b : block) : P0 b :=
  match b with Blk ds body => h_block ds body (stmts_ind2 body) end
with stmts_ind2 (l : stmts) : P1 l :=
  match l with SNil => h_nil | SCons s r => h_cons s (stmt_ind2 s) r (stmts_ind2 r) end.

Lemma sbs_mutind2 : (forall s, P s) /\ (forall b, P0 b) /\ (forall l, P1 l).
Proof. exact (conj stmt_ind2 (conj block_ind2 stmts_ind2)). Qed.
End Ind2.

(* ------------------------------------------------------------------------------------------ *)
(* results that are not "unbound name"                                                         *)
(* ------------------------------------------------------------------------------------------ *)
Definition nub {A} (r : res A) : Prop := forall x, r <> RStuck (KUnbound x).

Ltac leaf := let y := fresh "y" in let E := fresh "E" in intros y E; discriminate E.

Lemma nub_bind : forall {A B} (r : res A) (f : A -> res B),
  nub r -> (forall a, nub (f a)) -> nub (rbind r f).
Proof.
  intros A B r f Hr Hf. destruct r as [a|ft|k]; simpl; [apply Hf|leaf|].
  intros x E. injection E as E. subst k. apply (Hr x). reflexivity.
Qed.

Lemma arith_nub : forall op a b, nub (arith op a b).
Proof.
  intros op a b. unfold arith.
  destruct (is_sym a || is_sym b); [leaf|].
  destruct (num_of a) as [[x|p]|]; destruct (num_of b) as [[y|q]|];
    repeat match goal with |- context [if ?c then _ else _] => destruct c end; leaf.
Qed.

Lemma unary_nub : forall op a, nub (unary op a).
Proof.
  intros op a. unfold unary. destruct (is_sym a); [leaf|].
  destruct (String.eqb op "!"); [destruct a; leaf|].
  destruct (num_of a) as [[x|p]|];
    repeat match goal with |- context [if ?c then _ else _] => destruct c end; leaf.
Qed.

Lemma truth_nub : forall v, nub (truth v).
Proof. intros v. destruct v; leaf. Qed.

Lemma call_method_nub : forall ev o m args, nub (call_method ev o m args).
Proof.
  intros ev o m args. unfold call_method.
  repeat match goal with |- context [match ?c with _ => _ end] => destruct c end; leaf.
Qed.

(* ------------------------------------------------------------------------------------------ *)
(* well_scoped is sound: a well-scoped program never gets stuck on an unbound name             *)
(* ------------------------------------------------------------------------------------------ *)
Definition rel_n (e : sentry) (b : binding) : Prop := fst e = fst b.
Lemma rel_n_name : forall e b, rel_n e b -> fst e = fst b.
Proof. intros e b H. exact H. Qed.

Lemma sc_name_nil : forall G M x, sc_name G M x = [] -> bound x G M = true.
Proof. unfold sc_name. intros G M x H. destruct (bound x G M); [reflexivity|discriminate]. Qed.

Lemma bound_lookup_n : forall G M st x, R rel_n G M st -> bound x G M = true ->
  exists t v, lookup x st = Some (t, v).
Proof.
  intros G M st x HR Hb. destruct (R_bound rel_n rel_n_name G M st x HR Hb) as [tc [[t v] [_ [Hl _]]]].
  exists t, v. exact Hl.
Qed.

Lemma assign_n : forall G M st x t v v', R rel_n G M st -> lookup x st = Some (t, v) ->
  exists st', assign x v' st = Some st' /\ R rel_n G M st'.
Proof.
  intros G M st x t v v' HR Hl. apply (R_assign rel_n G M st x t v v' HR Hl).
  intros e He. exact He.
Qed.

Section ScopeSound.
Variable D : list string.

Lemma eval_scope : forall ev G M st, R rel_n G M st ->
  (forall e, sc_exp D G M e = [] -> nub (eval ev st e)) /\
  (forall l, sc_args D G M l = [] -> nub (eval_args ev st l)).
Proof.
  intros ev G M st HR. apply cexp_mutind; simpl.
  - (* CVar *) intros x H. apply sc_name_nil in H.
    destruct (bound_lookup_n G M st x HR H) as [t [v Hl]]. rewrite Hl. destruct v; leaf.
  - intros; leaf.
  - intros; leaf.
  - intros; leaf.
  - intros; leaf.
  - (* CBin *) intros op a IHa b IHb H. apply app_nil2 in H. destruct H as [Ha Hb].
    apply nub_bind; [auto|]. intros x. apply nub_bind; [auto|]. intros y. apply arith_nub.
  - (* CUn *) intros op a IHa H. apply nub_bind; [auto|]. intros x. apply unary_nub.
  - (* CNot *) intros a IHa H. apply nub_bind; [auto|]. intros x. apply unary_nub.
  - (* CDeref *) intros a IHa H. apply nub_bind; [auto|]. intros x. destruct x; leaf.
  - (* CCall *) intros f args IH H. apply nub_bind; [auto|]. intros vs. leaf.
  - (* CMeth *) intros o IHo arrow m args IHargs H. apply app_nil2 in H. destruct H as [Ho Hargs].
    apply nub_bind; [auto|]. intros x. apply nub_bind; [auto|]. intros vs. apply call_method_nub.
  - (* CField *) intros o IHo arrow m H. apply nub_bind; [auto|]. intros x. apply call_method_nub.
  - (* CCast *) intros ty a IHa H. apply nub_bind; [auto|]. intros x. leaf.
  - (* CSubI *) intros a IHa b IHb H. apply app_nil2 in H. destruct H as [Ha Hb].
    apply nub_bind; [auto|]. intros x. apply nub_bind; [auto|]. intros y. apply arith_nub.
  - (* COpaque *) intros; leaf.
  - (* CNil *) intros; leaf.
  - (* CCons *) intros e IHe r IHr H. apply app_nil2 in H. destruct H as [He Hr].
    apply nub_bind; [auto|]. intros v. apply nub_bind; [auto|]. intros vs. leaf.
Qed.

Definition post_n (G : senv) (M : sframe) (r : res state) : Prop :=
  match r with
  | ROk st' => R rel_n G M st'
  | RFault _ => True
  | RStuck k => forall x, k <> KUnbound x
  end.

Lemma post_n_bind_val : forall {A} G M (r : res A) (f : A -> res state),
  nub r -> (forall a, post_n G M (f a)) -> post_n G M (rbind r f).
Proof.
  intros A G M r f Hr Hf. destruct r as [a|ft|k]; simpl; [apply Hf|exact I|].
  intros x E. subst k. apply (Hr x). reflexivity.
Qed.

Lemma post_n_bind : forall G M G' M' (r : res state) (f : state -> res state),
  post_n G' M' r -> (forall st', R rel_n G' M' st' -> post_n G M (f st')) -> post_n G M (rbind r f).
Proof.
  intros G M G' M' r f Hr Hf. destruct r as [a|ft|k]; simpl in *; [apply Hf; exact Hr|exact I|exact Hr].
Qed.

Lemma run_decls_scope : forall ev ds cur G M st, R rel_n (cur :: G) M st ->
  sc_decls D G M cur ds = [] ->
  post_n ((cur ++ map entry_of_decl ds) :: G) M (run_decls ev ds st).
Proof.
  intros ev ds. induction ds as [|d ds IH]; simpl; intros cur G M st HR H.
  - rewrite app_nil_r. exact HR.
  - apply app_nil2 in H. destruct H as [Hi Hr].
    assert (Hstep : forall v, post_n ((cur ++ entry_of_decl d :: map entry_of_decl ds) :: G) M
                                (run_decls ev ds (declare (d_name d) (d_type d) v st))).
    { intros v. specialize (IH (cur ++ [entry_of_decl d]) G M (declare (d_name d) (d_type d) v st)).
      rewrite <- app_assoc in IH. simpl in IH. apply IH; [|exact Hr].
      apply R_declare; [exact HR|reflexivity]. }
    destruct (d_init d) as [e|].
    + apply post_n_bind_val; [|intros v; apply Hstep].
      apply (proj1 (eval_scope ev (cur :: G) M st HR)). exact Hi.
    + apply Hstep.
Qed.

Opaque lookup assign eval truth.
Lemma exec_scope : forall brs ev,
  (forall s G M st, R rel_n G M st -> sc_stmt D G M s = [] -> post_n G M (exec_stmt brs ev s st)) /\
  (forall b G M pre preb st, R rel_n G M st -> Rf rel_n pre preb -> sc_block D G M pre b = [] ->
        post_n G M (exec_block brs ev b preb st)) /\
  (forall l G M st, R rel_n G M st -> sc_stmts D G M l = [] -> post_n G M (exec_stmts brs ev l st)).
Proof.
  intros brs ev. apply sbs_mutind2.
  - (* SSet *) intros x c e G M st HR H. simpl in *. apply app_nil2 in H. destruct H as [He Hx].
    apply post_n_bind_val; [apply (proj1 (eval_scope ev G M st HR)); exact He|]. intros v.
    apply sc_name_nil in Hx. destruct (bound_lookup_n G M st x HR Hx) as [t [w Hl]]. rewrite Hl.
    cbv zeta.
    match goal with |- context [assign x ?nv st] => destruct (assign_n G M st x t w nv HR Hl) as [st' [Ha HR']] end.
    rewrite Ha. exact HR'.
  - (* SPush *) intros x c e G M st HR H. simpl in *. apply app_nil2 in H. destruct H as [He Hx].
    apply post_n_bind_val; [apply (proj1 (eval_scope ev G M st HR)); exact He|]. intros v.
    apply sc_name_nil in Hx. destruct (bound_lookup_n G M st x HR Hx) as [t [w Hl]]. rewrite Hl.
    destruct w; try (simpl; leaf). cbv zeta.
    match goal with |- context [assign x ?nv st] => destruct (assign_n G M st x t (VVec l) nv HR Hl) as [st' [Ha HR']] end.
    rewrite Ha. exact HR'.
  - (* SClear *) intros x G M st HR H. simpl in H. cbn.
    apply sc_name_nil in H. destruct (bound_lookup_n G M st x HR H) as [t [w Hl]]. rewrite Hl.
    destruct w; try (simpl; leaf).
    destruct (assign_n G M st x t (VVec l) (VVec []) HR Hl) as [st' [Ha HR']]. rewrite Ha. exact HR'.
  - (* SFill *) intros line G M st HR H. simpl. apply R_rows. exact HR.
  - (* SThrow *) intros line G M st HR H. simpl. exact I.
  - (* SFetch *) intros idiom target ct bank lines G M st HR H. simpl in H. cbn.
    destruct (assoc_ss (ct, bank) (ev_colls ev)) as [v|]; [|exact I].
    apply sc_name_nil in H. destruct (bound_lookup_n G M st target HR H) as [t [w Hl]].
    destruct (assign_n G M st target t w v HR Hl) as [st' [Ha HR']]. rewrite Ha. exact HR'.
  - (* SIota *) intros v b G M st HR H. simpl in H. cbn. apply app_nil2 in H. destruct H as [Hv Hb].
    apply sc_name_nil in Hv. apply sc_name_nil in Hb.
    destruct (bound_lookup_n G M st v HR Hv) as [t [w Hl]].
    destruct (bound_lookup_n G M st b HR Hb) as [t2 [w2 Hl2]]. rewrite Hl, Hl2.
    destruct w; destruct w2; try (simpl; leaf).
    destruct (assign_n G M st v t (VVec l) (VVec (iota (List.length l) z)) HR Hl) as [st' [Ha HR']].
    rewrite Ha. exact HR'.
  - (* SUser *) intros; simpl; leaf.
  - (* SLine *) intros; simpl; leaf.
  - (* SFor *) intros x e b IHb G M st HR H. simpl in *. apply app_nil2 in H. destruct H as [He Hb].
    apply post_n_bind_val; [apply (proj1 (eval_scope ev G M st HR)); exact He|]. intros c.
    destruct c; try (simpl; leaf).
    clear He. revert st HR. induction l as [|v l IHl]; intros st HR; [exact HR|].
    apply post_n_bind with (G' := G) (M' := M).
    + apply IHb with (pre := [loop_entry x]); [exact HR| |exact Hb].
      constructor; [reflexivity|constructor].
    + intros st' HR'. apply IHl. exact HR'.
  - (* SIf *) intros c b IHb els IHels G M st HR H. simpl in *.
    apply app_nil3 in H. destruct H as [Hc [Hb He]].
    apply post_n_bind_val; [apply (proj1 (eval_scope ev G M st HR)); exact Hc|]. intros v.
    apply post_n_bind_val; [apply truth_nub|]. intros t. destruct t.
    + apply IHb with (pre := []); [exact HR|constructor|exact Hb].
    + destruct els as [b2|]; [|exact HR]. simpl in IHels.
      apply IHels with (pre := []); [exact HR|constructor|exact He].
  - (* SBlk *) intros b IHb G M st HR H. simpl in *. apply IHb with (pre := []); [exact HR|constructor|exact H].
  - (* Blk *) intros ds body IHbody G M pre preb st HR Hpre H. simpl in *.
    apply app_nil2 in H. destruct H as [Hd Hs].
    apply post_n_bind with (G' := (pre ++ map entry_of_decl ds) :: G) (M' := M).
    + apply run_decls_scope; [|exact Hd]. apply R_push; assumption.
    + intros st1 HR1. apply post_n_bind with (G' := (pre ++ map entry_of_decl ds) :: G) (M' := M).
      * apply IHbody; assumption.
      * intros st2 HR2. simpl. apply R_pop with (f := pre ++ map entry_of_decl ds). exact HR2.
  - (* SNil *) intros G M st HR H. simpl. exact HR.
  - (* SCons *) intros s IHs r IHr G M st HR H. simpl in *. apply app_nil2 in H. destruct H as [H1 H2].
    apply post_n_bind with (G' := G) (M' := M); [apply IHs; assumption|].
    intros st' HR'. apply IHr; assumption.
Qed.
Transparent lookup assign eval truth.
End ScopeSound.

Lemma Forall2_fst_of_map : forall {A B C} (l1 : list (A * B)) (l2 : list (A * C)),
  map fst l1 = map fst l2 -> Forall2 (fun a b => fst a = fst b) l1 l2.
Proof.
  intros A B C l1. induction l1 as [|a l1 IH]; intros [|b l2] H; simpl in H; try discriminate.
  - constructor.
  - injection H as H1 H2. constructor; [exact H1|apply IH; exact H2].
Qed.

Lemma member_env_names : forall p, map fst (member_env p) = map m_name (p_members p).
Proof. intros p. unfold member_env. rewrite map_map. reflexivity. Qed.

Definition binds_members (p : program) (ms : frame) : Prop := map fst ms = map m_name (p_members p).

Theorem well_scoped_sound_lemma : forall p, well_scoped p = true ->
  forall ev ms, binds_members p ms -> forall x, run_event p ms ev <> RStuck (KUnbound x).
Proof.
  intros p Hws ev ms Hms x. unfold run_event.
  apply is_nil_true in Hws. unfold scope_errs in Hws.
  pose proof (proj1 (proj2 (exec_scope (declared_names p) (p_branches p) ev)) (p_body p) [] (member_env p) [] []
                {| frames := []; members := ms; rows := [] |}) as H.
  assert (HR : R rel_n [] (member_env p) {| frames := []; members := ms; rows := [] |}).
  { split; simpl; [constructor|]. apply Forall2_fst_of_map. rewrite member_env_names. symmetry. exact Hms. }
  specialize (H HR (Forall2_nil _) Hws).
  destruct (exec_block (p_branches p) ev (p_body p) [] {| frames := []; members := ms; rows := [] |}) as [st|f|k];
    simpl in H; try discriminate.
  intros E. injection E as E. exact (H x E).
Qed.

(* the member state after a successful event still binds every member: the hypothesis propagates along a job *)
Theorem well_scoped_members_preserved_lemma : forall p, well_scoped p = true ->
  forall ev ms rs ms', binds_members p ms -> run_event p ms ev = ROk (rs, ms') -> binds_members p ms'.
Proof.
  intros p Hws ev ms rs ms' Hms Hrun. unfold run_event in Hrun.
  apply is_nil_true in Hws. unfold scope_errs in Hws.
  pose proof (proj1 (proj2 (exec_scope (declared_names p) (p_branches p) ev)) (p_body p) [] (member_env p) [] []
                {| frames := []; members := ms; rows := [] |}) as H.
  assert (HR : R rel_n [] (member_env p) {| frames := []; members := ms; rows := [] |}).
  { split; simpl; [constructor|]. apply Forall2_fst_of_map. rewrite member_env_names. symmetry. exact Hms. }
  specialize (H HR (Forall2_nil _) Hws).
  destruct (exec_block (p_branches p) ev (p_body p) [] {| frames := []; members := ms; rows := [] |}) as [st|f|k];
    try discriminate.
  injection Hrun as E1 E2. subst ms'. simpl in H. destruct H as [_ HM].
  unfold binds_members. rewrite <- member_env_names.
  clear - HM. unfold Rf in HM. induction HM as [|e b f g Hr HF IH]; simpl; [reflexivity|].
  unfold rel_n in Hr. rewrite Hr, IH. reflexivity.
Qed.
