(* Soundness of the static checkers of Cpp/Static.v with respect to the execution semantics Cpp/Exec.v. *)
From FV Require Import Base.Prelude Cpp.IR Cpp.Exec Cpp.Static.
From Coq Require Import Permutation.

Lemma is_nil_true : forall {A} (l : list A), is_nil l = true -> l = [].
Proof. intros A [|a l] H; [reflexivity|discriminate]. Qed.

Lemma app_nil2 : forall {A} (a b : list A), a ++ b = [] -> a = [] /\ b = [].
Proof. intros A a b H. apply app_eq_nil in H. exact H. Qed.

Lemma app_nil3 : forall {A} (a b c : list A), a ++ b ++ c = [] -> a = [] /\ b = [] /\ c = [].
Proof. intros A a b c H. apply app_eq_nil in H. destruct H as [Ha H]. apply app_eq_nil in H. tauto. Qed.

(* ------------------------------------------------------------------------------------------ *)
(* static environment vs dynamic frames, generic in the per-binding relation                   *)
(* ------------------------------------------------------------------------------------------ *)
Section Rel.
Variable rel : sentry -> binding -> Prop.
Hypothesis rel_name : forall e b, rel e b -> fst e = fst b.

Definition Rf (f : sframe) (g : frame) : Prop := Forall2 rel f g.
Definition R (G : senv) (M : sframe) (st : state) : Prop :=
  Forall2 Rf G (frames st) /\ Rf M (members st).

Lemma Rf_get : forall (f : sframe) (g : frame) (x : string), Rf f g ->
  match sget x f with
  | Some tc => exists tv, frame_get x g = Some tv /\ rel (x, tc) (x, tv)
  | None => frame_get x g = None
  end.
Proof.
  intros f g x H. induction H as [|e b f g Hr HF IH]; simpl; [reflexivity|].
  destruct e as [y tc]. destruct b as [y' tv]. pose proof (rel_name _ _ Hr) as Hn. simpl in Hn. subst y'.
  destruct (String.eqb x y) eqn:E.
  - apply String.eqb_eq in E. subst y. exists tv. split; [reflexivity|exact Hr].
  - exact IH.
Qed.

Lemma Rfs_get : forall (G : senv) (fs : list frame) (x : string), Forall2 Rf G fs ->
  match sgets x G with
  | Some tc => exists tv, frames_get x fs = Some tv /\ rel (x, tc) (x, tv)
  | None => frames_get x fs = None
  end.
Proof.
  intros G fs x H. induction H as [|f g G fs Hf HF IH]; simpl; [reflexivity|].
  pose proof (Rf_get f g x Hf) as H1. destruct (sget x f) as [tc|].
  - destruct H1 as [tv [H1 H2]]. rewrite H1. exists tv. split; [reflexivity|exact H2].
  - rewrite H1. exact IH.
Qed.

Lemma R_lookup : forall (G : senv) (M : sframe) (st : state) (x : string), R G M st ->
  match slookup x G M with
  | Some tc => exists tv, lookup x st = Some tv /\ rel (x, tc) (x, tv)
  | None => lookup x st = None
  end.
Proof.
  intros G M st x [HG HM]. unfold slookup, lookup.
  pose proof (Rfs_get G (frames st) x HG) as H1. destruct (sgets x G) as [tc|].
  - destruct H1 as [tv [H1 H2]]. rewrite H1. exists tv. split; [reflexivity|exact H2].
  - rewrite H1. pose proof (Rf_get M (members st) x HM) as H2. destruct (sget x M) as [tc|].
    + destruct H2 as [tv [H2 H3]]. rewrite H2. exists tv. split; [reflexivity|exact H3].
    + rewrite H2. reflexivity.
Qed.

Lemma R_bound : forall (G : senv) (M : sframe) (st : state) (x : string), R G M st ->
  bound x G M = true -> exists tc tv, slookup x G M = Some tc /\ lookup x st = Some tv /\ rel (x, tc) (x, tv).
Proof.
  intros G M st x HR Hb. unfold bound in Hb. pose proof (R_lookup G M st x HR) as H.
  destruct (slookup x G M) as [tc|]; [|discriminate].
  destruct H as [tv [H1 H2]]. exists tc, tv. auto.
Qed.

(* assignment: succeeds exactly on bound names and keeps the relation when the new value is acceptable
   for whatever static entry the binding is related to *)
Lemma Rf_set : forall (f : sframe) (g : frame) (x : string) (v' : value), Rf f g ->
  match frame_get x g with
  | Some (t, v) => (forall e, rel e (x, (t, v)) -> rel e (x, (t, v'))) ->
                   exists g', frame_set x v' g = Some g' /\ Rf f g'
  | None => frame_set x v' g = None
  end.
Proof.
  intros f g x v' H. induction H as [|e b f g Hr HF IH]; simpl; [reflexivity|].
  destruct b as [y [t w]]. destruct (String.eqb x y) eqn:E.
  - apply String.eqb_eq in E. subst y. intros Hok. eexists. split; [reflexivity|].
    constructor; [apply Hok; exact Hr|exact HF].
  - destruct (frame_get x g) as [[t0 v0]|].
    + intros Hok. destruct (IH Hok) as [g' [H1 H2]]. rewrite H1. eexists. split; [reflexivity|].
      constructor; assumption.
    + rewrite IH. reflexivity.
Qed.

Lemma Rfs_set : forall (G : senv) (fs : list frame) (x : string) (v' : value), Forall2 Rf G fs ->
  match frames_get x fs with
  | Some (t, v) => (forall e, rel e (x, (t, v)) -> rel e (x, (t, v'))) ->
                   exists fs', frames_set x v' fs = Some fs' /\ Forall2 Rf G fs'
  | None => frames_set x v' fs = None
  end.
Proof.
  intros G fs x v' H. induction H as [|f g G fs Hf HF IH]; simpl; [reflexivity|].
  pose proof (Rf_set f g x v' Hf) as H1. destruct (frame_get x g) as [[t v]|].
  - intros Hok. destruct (H1 Hok) as [g' [H2 H3]]. rewrite H2. eexists. split; [reflexivity|].
    constructor; assumption.
  - rewrite H1. destruct (frames_get x fs) as [[t v]|].
    + intros Hok. destruct (IH Hok) as [fs' [H2 H3]]. rewrite H2. eexists. split; [reflexivity|].
      constructor; assumption.
    + rewrite IH. reflexivity.
Qed.

Lemma R_assign : forall (G : senv) (M : sframe) (st : state) (x : string) (t : string) (v v' : value),
  R G M st -> lookup x st = Some (t, v) ->
  (forall e, rel e (x, (t, v)) -> rel e (x, (t, v'))) ->
  exists st', assign x v' st = Some st' /\ R G M st'.
Proof.
  intros G M st x t v v' [HG HM] Hl Hok. unfold lookup in Hl. unfold assign.
  pose proof (Rfs_set G (frames st) x v' HG) as H1. destruct (frames_get x (frames st)) as [[t0 v0]|].
  - inversion Hl; subst t0 v0. destruct (H1 Hok) as [fs' [H2 H3]]. rewrite H2.
    eexists. split; [reflexivity|]. split; simpl; assumption.
  - rewrite H1. pose proof (Rf_set M (members st) x v' HM) as H2. rewrite Hl in H2.
    destruct (H2 Hok) as [m' [H3 H4]]. rewrite H3. eexists. split; [reflexivity|]. split; simpl; assumption.
Qed.

Lemma R_declare : forall (f : sframe) (G : senv) (M : sframe) (st : state) (e : sentry) (x t : string) (v : value),
  R (f :: G) M st -> rel e (x, (t, v)) -> R ((f ++ [e]) :: G) M (declare x t v st).
Proof.
  intros f G M st e x t v [HG HM] Hr. unfold declare. inversion HG as [|f0 g G0 fs Hf HF E1 E2]; subst.
  split; simpl; [|exact HM]. constructor; [|exact HF].
  apply Forall2_app; [exact Hf|]. constructor; [exact Hr|constructor].
Qed.

Lemma R_push : forall (G : senv) (M : sframe) (st : state) (pre : sframe) (preb : frame),
  R G M st -> Rf pre preb ->
  R (pre :: G) M {| frames := preb :: frames st; members := members st; rows := rows st |}.
Proof. intros G M st pre preb [HG HM] Hp. split; simpl; [constructor; assumption|exact HM]. Qed.

Lemma R_pop : forall (f : sframe) (G : senv) (M : sframe) (st : state),
  R (f :: G) M st -> R G M (pop_frame st).
Proof.
  intros f G M st [HG HM]. inversion HG as [|f0 g G0 fs Hf HF E1 E2]; subst.
  split; simpl; [rewrite <- E2; simpl; exact HF|exact HM].
Qed.

Lemma R_rows : forall (G : senv) (M : sframe) (st : state) (rs : list (list value)),
  R G M st -> R G M {| frames := frames st; members := members st; rows := rs |}.
Proof. intros G M st rs [HG HM]. split; simpl; assumption. Qed.
End Rel.


(* ------------------------------------------------------------------------------------------ *)
(* induction principle: IR.sbs_mutind gives no hypothesis for the else block of SIf (it sits   *)
(* under `option`, a nested occurrence); this one does.                                        *)
(* ------------------------------------------------------------------------------------------ *)
Section Ind2.
Variables (P : stmt -> Prop) (P0 : block -> Prop) (P1 : stmts -> Prop).
Hypothesis h_set : forall x c e, P (SSet x c e).
Hypothesis h_push : forall x c e, P (SPush x c e).
Hypothesis h_clear : forall x, P (SClear x).
Hypothesis h_fill : forall l, P (SFill l).
Hypothesis h_throw : forall l, P (SThrow l).
Hypothesis h_fetch : forall i t c b l, P (SFetch i t c b l).
Hypothesis h_iota : forall v b, P (SIota v b).
Hypothesis h_user : forall l i t, P (SUser l i t).
Hypothesis h_line : forall l i, P (SLine l i).
Hypothesis h_for : forall x e b, P0 b -> P (SFor x e b).
Definition opt_P0 (els : option block) : Prop := match els with Some b2 => P0 b2 | None => True end.
Hypothesis h_if : forall c b, P0 b -> forall els, opt_P0 els -> P (SIf c b els).
Hypothesis h_blk : forall b, P0 b -> P (SBlk b).
Hypothesis h_block : forall ds body, P1 body -> P0 (Blk ds body).
Hypothesis h_nil : P1 SNil.
Hypothesis h_cons : forall s, P s -> forall r, P1 r -> P1 (SCons s r).

Fixpoint stmt_ind2 (s : stmt) : P s :=
  match s with
  | SSet x c e => h_set x c e
  | SPush x c e => h_push x c e
  | SClear x => h_clear x
  | SFill l => h_fill l
  | SThrow l => h_throw l
  | SFetch i t c b l => h_fetch i t c b l
  | SIota v b => h_iota v b
  | SUser l i t => h_user l i t
  | SLine l i => h_line l i
  | SFor x e b => h_for x e b (block_ind2 b)
  | SIf c b els => h_if c b (block_ind2 b) els
                     (match els as o return opt_P0 o with
                      | Some b2 => block_ind2 b2
                      | None => I
                      end)
  | SBlk b => h_blk b (block_ind2 b)
  end
with block_ind2 (b : block) : P0 b :=
  match b with Blk ds body => h_block ds body (stmts_ind2 body) end
with stmts_ind2 (l : stmts) : P1 l :=
  match l with SNil => h_nil | SCons s r => h_cons s (stmt_ind2 s) r (stmts_ind2 r) end.

Lemma sbs_mutind2 : (forall s, P s) /\ (forall b, P0 b) /\ (forall l, P1 l).
Proof. exact (conj stmt_ind2 (conj block_ind2 stmts_ind2)). Qed.
End Ind2.

(* ------------------------------------------------------------------------------------------ *)
(* results that are not "unbound name"                                                         *)
(* ------------------------------------------------------------------------------------------ *)
Definition nub {A} (r : res A) : Prop := forall x, r <> RStuck (KUnbound x).

Ltac leaf := let y := fresh "y" in let E := fresh "E" in intros y E; discriminate E.

Lemma nub_bind : forall {A B} (r : res A) (f : A -> res B),
  nub r -> (forall a, nub (f a)) -> nub (rbind r f).
Proof.
  intros A B r f Hr Hf. destruct r as [a|ft|k]; simpl; [apply Hf|leaf|].
  intros x E. injection E as E. subst k. apply (Hr x). reflexivity.
Qed.

Lemma arith_nub : forall op a b, nub (arith op a b).
Proof.
  intros op a b. unfold arith.
  destruct (is_sym a || is_sym b); [leaf|].
  destruct (num_of a) as [[x|p]|]; destruct (num_of b) as [[y|q]|];
    repeat match goal with |- context [if ?c then _ else _] => destruct c end; leaf.
Qed.

Lemma unary_nub : forall op a, nub (unary op a).
Proof.
  intros op a. unfold unary. destruct (is_sym a); [leaf|].
  destruct (String.eqb op "!"); [destruct a; leaf|].
  destruct (num_of a) as [[x|p]|];
    repeat match goal with |- context [if ?c then _ else _] => destruct c end; leaf.
Qed.

Lemma truth_nub : forall v, nub (truth v).
Proof. intros v. destruct v; leaf. Qed.

Lemma call_method_nub : forall ev o m args, nub (call_method ev o m args).
Proof.
  intros ev o m args. unfold call_method.
  repeat match goal with |- context [match ?c with _ => _ end] => destruct c end; leaf.
Qed.

(* ------------------------------------------------------------------------------------------ *)
(* well_scoped is sound: a well-scoped program never gets stuck on an unbound name             *)
(* ------------------------------------------------------------------------------------------ *)
Definition rel_n (e : sentry) (b : binding) : Prop := fst e = fst b.
Lemma rel_n_name : forall e b, rel_n e b -> fst e = fst b.
Proof. intros e b H. exact H. Qed.

Lemma sc_name_nil : forall G M x, sc_name G M x = [] -> bound x G M = true.
Proof. unfold sc_name. intros G M x H. destruct (bound x G M); [reflexivity|discriminate]. Qed.

Lemma bound_lookup_n : forall G M st x, R rel_n G M st -> bound x G M = true ->
  exists t v, lookup x st = Some (t, v).
Proof.
  intros G M st x HR Hb. destruct (R_bound rel_n rel_n_name G M st x HR Hb) as [tc [[t v] [_ [Hl _]]]].
  exists t, v. exact Hl.
Qed.

Lemma assign_n : forall G M st x t v v', R rel_n G M st -> lookup x st = Some (t, v) ->
  exists st', assign x v' st = Some st' /\ R rel_n G M st'.
Proof.
  intros G M st x t v v' HR Hl. apply (R_assign rel_n G M st x t v v' HR Hl).
  intros e He. exact He.
Qed.

Section ScopeSound.
Variable D : list string.

Lemma eval_scope : forall ev G M st, R rel_n G M st ->
  (forall e, sc_exp D G M e = [] -> nub (eval ev st e)) /\
  (forall l, sc_args D G M l = [] -> nub (eval_args ev st l)).
Proof.
  intros ev G M st HR. apply cexp_mutind; simpl.
  - (* CVar *) intros x H. apply sc_name_nil in H.
    destruct (bound_lookup_n G M st x HR H) as [t [v Hl]]. rewrite Hl. destruct v; leaf.
  - intros; leaf.
  - intros; leaf.
  - intros; leaf.
  - intros; leaf.
  - (* CBin *) intros op a IHa b IHb H. apply app_nil2 in H. destruct H as [Ha Hb].
    apply nub_bind; [auto|]. intros x. apply nub_bind; [auto|]. intros y. apply arith_nub.
  - (* CUn *) intros op a IHa H. apply nub_bind; [auto|]. intros x. apply unary_nub.
  - (* CNot *) intros a IHa H. apply nub_bind; [auto|]. intros x. apply unary_nub.
  - (* CDeref *) intros a IHa H. apply nub_bind; [auto|]. intros x. destruct x; leaf.
  - (* CCall *) intros f args IH H. apply nub_bind; [auto|]. intros vs. leaf.
  - (* CMeth *) intros o IHo arrow m args IHargs H. apply app_nil2 in H. destruct H as [Ho Hargs].
    apply nub_bind; [auto|]. intros x. apply nub_bind; [auto|]. intros vs. apply call_method_nub.
  - (* CField *) intros o IHo arrow m H. apply nub_bind; [auto|]. intros x. apply call_method_nub.
  - (* CCast *) intros ty a IHa H. apply nub_bind; [auto|]. intros x. leaf.
  - (* CSubI *) intros a IHa b IHb H. apply app_nil2 in H. destruct H as [Ha Hb].
    apply nub_bind; [auto|]. intros x. apply nub_bind; [auto|]. intros y. apply arith_nub.
  - (* COpaque *) intros; leaf.
  - (* CNil *) intros; leaf.
  - (* CCons *) intros e IHe r IHr H. apply app_nil2 in H. destruct H as [He Hr].
    apply nub_bind; [auto|]. intros v. apply nub_bind; [auto|]. intros vs. leaf.
Qed.

Definition post_n (G : senv) (M : sframe) (r : res state) : Prop :=
  match r with
  | ROk st' => R rel_n G M st'
  | RFault _ => True
  | RStuck k => forall x, k <> KUnbound x
  end.

Lemma post_n_bind_val : forall {A} G M (r : res A) (f : A -> res state),
  nub r -> (forall a, post_n G M (f a)) -> post_n G M (rbind r f).
Proof.
  intros A G M r f Hr Hf. destruct r as [a|ft|k]; simpl; [apply Hf|exact I|].
  intros x E. subst k. apply (Hr x). reflexivity.
Qed.

Lemma post_n_bind : forall G M G' M' (r : res state) (f : state -> res state),
  post_n G' M' r -> (forall st', R rel_n G' M' st' -> post_n G M (f st')) -> post_n G M (rbind r f).
Proof.
  intros G M G' M' r f Hr Hf. destruct r as [a|ft|k]; simpl in *; [apply Hf; exact Hr|exact I|exact Hr].
Qed.

Lemma run_decls_scope : forall ev ds cur G M st, R rel_n (cur :: G) M st ->
  sc_decls D G M cur ds = [] ->
  post_n ((cur ++ map entry_of_decl ds) :: G) M (run_decls ev ds st).
Proof.
  intros ev ds. induction ds as [|d ds IH]; simpl; intros cur G M st HR H.
  - rewrite app_nil_r. exact HR.
  - apply app_nil2 in H. destruct H as [Hi Hr].
    assert (Hstep : forall v, post_n ((cur ++ entry_of_decl d :: map entry_of_decl ds) :: G) M
                                (run_decls ev ds (declare (d_name d) (d_type d) v st))).
    { intros v. specialize (IH (cur ++ [entry_of_decl d]) G M (declare (d_name d) (d_type d) v st)).
      rewrite <- app_assoc in IH. simpl in IH. apply IH; [|exact Hr].
      apply R_declare; [exact HR|reflexivity]. }
    destruct (d_init d) as [e|].
    + apply post_n_bind_val; [|intros v; apply Hstep].
      apply (proj1 (eval_scope ev (cur :: G) M st HR)). exact Hi.
    + apply Hstep.
Qed.

Opaque lookup assign eval truth.
Lemma exec_scope : forall brs ev,
  (forall s G M st, R rel_n G M st -> sc_stmt D G M s = [] -> post_n G M (exec_stmt brs ev s st)) /\
  (forall b G M pre preb st, R rel_n G M st -> Rf rel_n pre preb -> sc_block D G M pre b = [] ->
        post_n G M (exec_block brs ev b preb st)) /\
  (forall l G M st, R rel_n G M st -> sc_stmts D G M l = [] -> post_n G M (exec_stmts brs ev l st)).
Proof.
  intros brs ev. apply sbs_mutind2.
  - (* SSet *) intros x c e G M st HR H. simpl in *. apply app_nil2 in H. destruct H as [He Hx].
    apply post_n_bind_val; [apply (proj1 (eval_scope ev G M st HR)); exact He|]. intros v.
    apply sc_name_nil in Hx. destruct (bound_lookup_n G M st x HR Hx) as [t [w Hl]]. rewrite Hl.
    cbv zeta.
    match goal with |- context [assign x ?nv st] => destruct (assign_n G M st x t w nv HR Hl) as [st' [Ha HR']] end.
    rewrite Ha. exact HR'.
  - (* SPush *) intros x c e G M st HR H. simpl in *. apply app_nil2 in H. destruct H as [He Hx].
    apply post_n_bind_val; [apply (proj1 (eval_scope ev G M st HR)); exact He|]. intros v.
    apply sc_name_nil in Hx. destruct (bound_lookup_n G M st x HR Hx) as [t [w Hl]]. rewrite Hl.
    destruct w; try (simpl; leaf). cbv zeta.
    match goal with |- context [assign x ?nv st] => destruct (assign_n G M st x t (VVec l) nv HR Hl) as [st' [Ha HR']] end.
    rewrite Ha. exact HR'.
  - (* SClear *) intros x G M st HR H. simpl in H. cbn.
    apply sc_name_nil in H. destruct (bound_lookup_n G M st x HR H) as [t [w Hl]]. rewrite Hl.
    destruct w; try (simpl; leaf).
    destruct (assign_n G M st x t (VVec l) (VVec []) HR Hl) as [st' [Ha HR']]. rewrite Ha. exact HR'.
  - (* SFill *) intros line G M st HR H. simpl. apply R_rows. exact HR.
  - (* SThrow *) intros line G M st HR H. simpl. exact I.
  - (* SFetch *) intros idiom target ct bank lines G M st HR H. simpl in H. cbn.
    destruct (assoc_ss (ct, bank) (ev_colls ev)) as [v|]; [|exact I].
    apply sc_name_nil in H. destruct (bound_lookup_n G M st target HR H) as [t [w Hl]].
    destruct (assign_n G M st target t w v HR Hl) as [st' [Ha HR']]. rewrite Ha. exact HR'.
  - (* SIota *) intros v b G M st HR H. simpl in H. cbn. apply app_nil2 in H. destruct H as [Hv Hb].
    apply sc_name_nil in Hv. apply sc_name_nil in Hb.
    destruct (bound_lookup_n G M st v HR Hv) as [t [w Hl]].
    destruct (bound_lookup_n G M st b HR Hb) as [t2 [w2 Hl2]]. rewrite Hl, Hl2.
    destruct w; destruct w2; try (simpl; leaf).
    destruct (assign_n G M st v t (VVec l) (VVec (iota (List.length l) z)) HR Hl) as [st' [Ha HR']].
    rewrite Ha. exact HR'.
  - (* SUser *) intros; simpl; leaf.
  - (* SLine *) intros; simpl; leaf.
  - (* SFor *) intros x e b IHb G M st HR H. simpl in *. apply app_nil2 in H. destruct H as [He Hb].
    apply post_n_bind_val; [apply (proj1 (eval_scope ev G M st HR)); exact He|]. intros c.
    destruct c; try (simpl; leaf).
    clear He. revert st HR. induction l as [|v l IHl]; intros st HR; [exact HR|].
    apply post_n_bind with (G' := G) (M' := M).
    + apply IHb with (pre := [loop_entry x]); [exact HR| |exact Hb].
      constructor; [reflexivity|constructor].
    + intros st' HR'. apply IHl. exact HR'.
  - (* SIf *) intros c b IHb els IHels G M st HR H. simpl in *.
    apply app_nil3 in H. destruct H as [Hc [Hb He]].
    apply post_n_bind_val; [apply (proj1 (eval_scope ev G M st HR)); exact Hc|]. intros v.
    apply post_n_bind_val; [apply truth_nub|]. intros t. destruct t.
    + apply IHb with (pre := []); [exact HR|constructor|exact Hb].
    + destruct els as [b2|]; [|exact HR]. simpl in IHels.
      apply IHels with (pre := []); [exact HR|constructor|exact He].
  - (* SBlk *) intros b IHb G M st HR H. simpl in *. apply IHb with (pre := []); [exact HR|constructor|exact H].
  - (* Blk *) intros ds body IHbody G M pre preb st HR Hpre H. simpl in *.
    apply app_nil2 in H. destruct H as [Hd Hs].
    apply post_n_bind with (G' := (pre ++ map entry_of_decl ds) :: G) (M' := M).
    + apply run_decls_scope; [|exact Hd]. apply R_push; assumption.
    + intros st1 HR1. apply post_n_bind with (G' := (pre ++ map entry_of_decl ds) :: G) (M' := M).
      * apply IHbody; assumption.
      * intros st2 HR2. simpl. apply R_pop with (f := pre ++ map entry_of_decl ds). exact HR2.
  - (* SNil *) intros G M st HR H. simpl. exact HR.
  - (* SCons *) intros s IHs r IHr G M st HR H. simpl in *. apply app_nil2 in H. destruct H as [H1 H2].
    apply post_n_bind with (G' := G) (M' := M); [apply IHs; assumption|].
    intros st' HR'. apply IHr; assumption.
Qed.
Transparent lookup assign eval truth.
End ScopeSound.

Lemma Forall2_fst_of_map : forall {A B C} (l1 : list (A * B)) (l2 : list (A * C)),
  map fst l1 = map fst l2 -> Forall2 (fun a b => fst a = fst b) l1 l2.
Proof.
  intros A B C l1. induction l1 as [|a l1 IH]; intros [|b l2] H; simpl in H; try discriminate.
  - constructor.
  - injection H as H1 H2. constructor; [exact H1|apply IH; exact H2].
Qed.

Lemma member_env_names : forall p, map fst (member_env p) = map m_name (p_members p).
Proof. intros p. unfold member_env. rewrite map_map. reflexivity. Qed.

Definition binds_members (p : program) (ms : frame) : Prop := map fst ms = map m_name (p_members p).

Theorem well_scoped_sound_lemma : forall p, well_scoped p = true ->
  forall ev ms, binds_members p ms -> forall x, run_event p ms ev <> RStuck (KUnbound x).
Proof.
  intros p Hws ev ms Hms x. unfold run_event.
  apply is_nil_true in Hws. unfold scope_errs in Hws.
  pose proof (proj1 (proj2 (exec_scope (declared_names p) (p_branches p) ev)) (p_body p) [] (member_env p) [] []
                {| frames := []; members := ms; rows := [] |}) as H.
  assert (HR : R rel_n [] (member_env p) {| frames := []; members := ms; rows := [] |}).
  { split; simpl; [constructor|]. apply Forall2_fst_of_map. rewrite member_env_names. symmetry. exact Hms. }
  specialize (H HR (Forall2_nil _) Hws).
  destruct (exec_block (p_branches p) ev (p_body p) [] {| frames := []; members := ms; rows := [] |}) as [st|f|k];
    simpl in H; try discriminate.
  intros E. injection E as E. exact (H x E).
Qed.

(* the member state after a successful event still binds every member: the hypothesis propagates along a job *)
Theorem well_scoped_members_preserved_lemma : forall p, well_scoped p = true ->
  forall ev ms rs ms', binds_members p ms -> run_event p ms ev = ROk (rs, ms') -> binds_members p ms'.
Proof.
  intros p Hws ev ms rs ms' Hms Hrun. unfold run_event in Hrun.
  apply is_nil_true in Hws. unfold scope_errs in Hws.
  pose proof (proj1 (proj2 (exec_scope (declared_names p) (p_branches p) ev)) (p_body p) [] (member_env p) [] []
                {| frames := []; members := ms; rows := [] |}) as H.
  assert (HR : R rel_n [] (member_env p) {| frames := []; members := ms; rows := [] |}).
  { split; simpl; [constructor|]. apply Forall2_fst_of_map. rewrite member_env_names. symmetry. exact Hms. }
  specialize (H HR (Forall2_nil _) Hws).
  destruct (exec_block (p_branches p) ev (p_body p) [] {| frames := []; members := ms; rows := [] |}) as [st|f|k];
    try discriminate.
  injection Hrun as E1 E2. subst ms'. simpl in H. destruct H as [_ HM].
  unfold binds_members. rewrite <- member_env_names.
  clear - HM. unfold Rf in HM. induction HM as [|e b f g Hr HF IH]; simpl; [reflexivity|].
  unfold rel_n in Hr. rewrite Hr, IH. reflexivity.
Qed.

(* job level: no event of any job gets stuck on an unbound name *)
Lemma run_job_from_scope : forall p, well_scoped p = true ->
  forall evs ms n acc, binds_members p ms ->
  forall m x, run_job_from p ms evs n acc <> JStuck m (KUnbound x).
Proof.
  intros p Hws evs. induction evs as [|ev evs IH]; intros ms n acc Hms m x; simpl; [discriminate|].
  destruct (run_event p ms ev) as [[rs ms']|f|k] eqn:E.
  - apply IH. apply (well_scoped_members_preserved_lemma p Hws ev ms rs ms' Hms E).
  - discriminate.
  - intros E2. injection E2 as E3 E4. subst k.
    apply (well_scoped_sound_lemma p Hws ev ms Hms x). exact E.
Qed.

Lemma initial_members_binds : forall p, binds_members p (initial_members (p_members p)).
Proof. intros p. unfold binds_members, initial_members. rewrite map_map. reflexivity. Qed.

(* ------------------------------------------------------------------------------------------ *)
(* types_ok is sound for three ill-typed operations                                            *)
(* ------------------------------------------------------------------------------------------ *)
Definition nondbl (v : value) : Prop := match v with VDbl _ => False | _ => True end.
Definition val_ok (t : string) (c : bool) (v : value) : Prop :=
  (is_vector_type t = true -> c = true -> exists l, v = VVec l) /\ (is_int_type t = true -> nondbl v).
Definition rel_t (e : sentry) (b : binding) : Prop :=
  fst e = fst b /\ fst (snd e) = fst (snd b) /\ val_ok (fst (snd e)) (snd (snd e)) (snd (snd b)).
Lemma rel_t_name : forall e b, rel_t e b -> fst e = fst b.
Proof. intros e b H. exact (proj1 H). Qed.

(* the stuck states the theorem excludes *)
Definition covered (k : stuck) : bool :=
  match k with
  | KType w => prefix "push_back on non-vector " w || prefix "clear on non-vector " w
               || String.eqb w "% with a floating operand is ill-formed C++"
  | _ => false
  end.
Definition okr {A} (r : res A) : Prop := match r with RStuck k => covered k = false | _ => True end.

Ltac okleaf := first [exact I | reflexivity].

Lemma okr_bind : forall {A B} (r : res A) (f : A -> res B),
  okr r -> (forall a, r = ROk a -> okr (f a)) -> okr (rbind r f).
Proof. intros A B r f Hr Hf. destruct r as [a|ft|k]; simpl; [apply Hf; reflexivity|exact I|exact Hr]. Qed.

Lemma val_ok_vec : forall t c l, val_ok t c (VVec l).
Proof. intros t c l. split; intros; [exists l; reflexivity|exact I]. Qed.

Lemma int_not_vector : forall t, is_int_type t = true -> is_vector_type t = false.
Proof.
  intros t H. unfold is_int_type in H.
  destruct (String.eqb_spec t "int") as [E|E]; [subst t; reflexivity|].
  destruct (String.eqb_spec t "bool") as [E2|E2]; [subst t; reflexivity|discriminate].
Qed.

Lemma conv_int_nondbl : forall t v, is_int_type t = true -> nondbl (conv t v).
Proof.
  intros t v H. unfold is_int_type in H.
  destruct (String.eqb_spec t "int") as [E|E].
  - subst t. destruct v; exact I.
  - destruct (String.eqb_spec t "bool") as [E2|E2]; [|discriminate]. subst t. destruct v; exact I.
Qed.

Lemma arith_okr : forall op a b, (String.eqb op "%" = true -> nondbl a /\ nondbl b) -> okr (arith op a b).
Proof.
  intros op a b H. destruct (String.eqb op "%") eqn:Emod.
  - destruct (H eq_refl) as [Ha Hb]. unfold arith.
    destruct a; simpl in Ha; try contradiction; destruct b; simpl in Hb; try contradiction; simpl;
      repeat match goal with |- context [if ?c then _ else _] => destruct c end; okleaf.
  - unfold arith. destruct (is_sym a || is_sym b); [exact I|].
    destruct (num_of a) as [[x|p]|]; destruct (num_of b) as [[y|q]|]; rewrite ?Emod;
      repeat match goal with |- context [if ?c then _ else _] => destruct c end; okleaf.
Qed.

Lemma arith_nondbl : forall op a b v, nondbl a -> nondbl b -> arith op a b = ROk v -> nondbl v.
Proof.
  intros op a b v Ha Hb. unfold arith.
  destruct a; simpl in Ha; try contradiction; destruct b; simpl in Hb; try contradiction; simpl;
    repeat match goal with |- context [if ?c then _ else _] => destruct c end;
    intros E; try discriminate E; injection E as E; subst v; exact I.
Qed.

Lemma unary_okr : forall op a, okr (unary op a).
Proof.
  intros op a. unfold unary. destruct (is_sym a); [exact I|].
  destruct (String.eqb op "!"); [destruct a; okleaf|].
  destruct (num_of a) as [[x|p]|];
    repeat match goal with |- context [if ?c then _ else _] => destruct c end; okleaf.
Qed.

Lemma unary_nondbl : forall op a v, nondbl a -> unary op a = ROk v -> nondbl v.
Proof.
  intros op a v Ha. unfold unary. destruct a; simpl in Ha; try contradiction; simpl;
    repeat match goal with |- context [if ?c then _ else _] => destruct c end;
    intros E; try discriminate E; injection E as E; subst v; exact I.
Qed.

Lemma not_nondbl : forall a v, unary "!" a = ROk v -> nondbl v.
Proof.
  intros a v. unfold unary. destruct a; simpl; intros E; try discriminate E; injection E as E; subst v; exact I.
Qed.

Lemma truth_okr : forall v, okr (truth v).
Proof. intros v. destruct v; okleaf. Qed.

Lemma call_method_okr : forall ev o m args, okr (call_method ev o m args).
Proof.
  intros ev o m args. unfold call_method.
  repeat match goal with |- context [match ?c with _ => _ end] => destruct c end; okleaf.
Qed.

Section TypesSound.
Variable mt : list (string * string).

(* the event respects the declared data model: a method declared int / bool never yields a double *)
Definition ev_ok (ev : event) : Prop :=
  forall o m v, assoc_ns (o, m) (ev_meths ev) = Some v -> int_method mt m = true -> nondbl v.

Lemma call_method_nondbl : forall ev o m args v, ev_ok ev ->
  int_method mt m && negb (String.eqb m "at") = true -> call_method ev o m args = ROk v -> nondbl v.
Proof.
  intros ev o m args v Hev H. apply andb_prop in H. destruct H as [Hm Hat].
  apply negb_true_iff in Hat. unfold call_method. rewrite Hat.
  destruct o; try (intros E; discriminate E).
  - destruct args.
    + destruct (assoc_ns (o, m) (ev_meths ev)) as [w|] eqn:Ea; intros E; injection E as E; subst v.
      * apply (Hev o m w Ea Hm).
      * exact I.
    + intros E; injection E as E; subst v. exact I.
  - destruct (String.eqb m "size"); intros E; try discriminate E. injection E as E; subst v. exact I.
  - intros E; injection E as E; subst v. exact I.
Qed.

Lemma lookup_t : forall G M st x t c, R rel_t G M st -> slookup x G M = Some (t, c) ->
  exists w, lookup x st = Some (t, w) /\ val_ok t c w.
Proof.
  intros G M st x t c HR Hs. pose proof (R_lookup rel_t rel_t_name G M st x HR) as H. rewrite Hs in H.
  destruct H as [[t' w] [Hl [_ [Ht Hv]]]]. simpl in Ht, Hv. subst t'. exists w. auto.
Qed.

Lemma assign_t : forall G M st x t w v', R rel_t G M st -> lookup x st = Some (t, w) ->
  (forall c, val_ok t c v') -> exists st', assign x v' st = Some st' /\ R rel_t G M st'.
Proof.
  intros G M st x t w v' HR Hl Hok. apply (R_assign rel_t G M st x t w v' HR Hl).
  intros e [H1 [H2 H3]]. simpl in *. split; [exact H1|]. split; [exact H2|]. simpl. rewrite H2. apply Hok.
Qed.

Lemma ty_int_sound : forall ev G M st, R rel_t G M st -> ev_ok ev ->
  forall e, ty_int mt G M e = true -> forall v, eval ev st e = ROk v -> nondbl v.
Proof.
  intros ev G M st HR Hev e. induction e; simpl; intros Hty v Hv; try discriminate Hty.
  - (* CVar *) destruct (slookup x G M) as [[t c]|] eqn:Hs; [|discriminate].
    destruct (lookup_t G M st x t c HR Hs) as [w [Hl [_ Hi]]]. rewrite Hl in Hv.
    specialize (Hi Hty). destruct w; try discriminate Hv; injection Hv as Hv; subst v; exact Hi.
  - injection Hv as Hv; subst v; exact I.
  - injection Hv as Hv; subst v; exact I.
  - (* CBin *) apply andb_prop in Hty. destruct Hty as [H1 H2].
    destruct (eval ev st e1) as [x|f|k] eqn:E1; try discriminate Hv.
    destruct (eval ev st e2) as [y|f|k] eqn:E2; try discriminate Hv. simpl in Hv.
    apply (arith_nondbl op x y v); [apply IHe1; auto|apply IHe2; auto|exact Hv].
  - (* CUn *) destruct (eval ev st e) as [x|f|k] eqn:E1; try discriminate Hv. simpl in Hv.
    apply (unary_nondbl op x v); [apply IHe; auto|exact Hv].
  - (* CNot *) destruct (eval ev st e) as [x|f|k] eqn:E1; try discriminate Hv. simpl in Hv.
    apply (not_nondbl x v Hv).
  - (* CMeth *) destruct (eval ev st e) as [x|f|k] eqn:E1; try discriminate Hv. simpl in Hv.
    destruct (eval_args ev st args) as [vs|f|k] eqn:E2; try discriminate Hv. simpl in Hv.
    apply (call_method_nondbl ev x m vs v Hev Hty Hv).
  - (* CField *) destruct (eval ev st e) as [x|f|k] eqn:E1; try discriminate Hv. simpl in Hv.
    apply (call_method_nondbl ev x m [] v Hev Hty Hv).
  - (* CCast *) destruct (eval ev st e) as [x|f|k] eqn:E1; try discriminate Hv. simpl in Hv.
    injection Hv as Hv; subst v. apply conv_int_nondbl. exact Hty.
Qed.

Lemma eval_types : forall ev G M st, R rel_t G M st -> ev_ok ev ->
  (forall e, ty_exp mt G M e = [] -> okr (eval ev st e)) /\
  (forall l, ty_args mt G M l = [] -> okr (eval_args ev st l)).
Proof.
  intros ev G M st HR Hev. apply cexp_mutind; simpl.
  - intros x H. destruct (lookup x st) as [[t v]|]; [destruct v|]; okleaf.
  - intros; exact I.
  - intros; exact I.
  - intros; exact I.
  - intros; exact I.
  - (* CBin *) intros op a IHa b IHb H. apply app_nil3 in H. destruct H as [Hm [Ha Hb]].
    apply okr_bind; [auto|]. intros x Ex. apply okr_bind; [auto|]. intros y Ey.
    apply arith_okr. intros Emod. rewrite Emod in Hm. apply app_nil2 in Hm. destruct Hm as [Hm1 Hm2].
    split.
    + destruct (ty_int mt G M a) eqn:Ta; [|discriminate Hm1]. apply (ty_int_sound ev G M st HR Hev a Ta x Ex).
    + destruct (ty_int mt G M b) eqn:Tb; [|discriminate Hm2]. apply (ty_int_sound ev G M st HR Hev b Tb y Ey).
  - (* CUn *) intros op a IHa H. apply okr_bind; [auto|]. intros x _. apply unary_okr.
  - (* CNot *) intros a IHa H. apply okr_bind; [auto|]. intros x _. apply unary_okr.
  - (* CDeref *) intros a IHa H. apply okr_bind; [auto|]. intros x _. destruct x; exact I.
  - (* CCall *) intros f args IH H. apply okr_bind; [auto|]. intros vs _. exact I.
  - (* CMeth *) intros o IHo arrow m args IHargs H. apply app_nil2 in H. destruct H as [Ho Hargs].
    apply okr_bind; [auto|]. intros x _. apply okr_bind; [auto|]. intros vs _. apply call_method_okr.
  - (* CField *) intros o IHo arrow m H. apply okr_bind; [auto|]. intros x _. apply call_method_okr.
  - (* CCast *) intros ty a IHa H. apply okr_bind; [auto|]. intros x _. exact I.
  - (* CSubI *) intros a IHa b IHb H. apply app_nil2 in H. destruct H as [Ha Hb].
    apply okr_bind; [auto|]. intros x _. apply okr_bind; [auto|]. intros y _.
    apply arith_okr. intros E. discriminate E.
  - intros; reflexivity.
  - intros; exact I.
  - intros e IHe r IHr H. apply app_nil2 in H. destruct H as [He Hr].
    apply okr_bind; [auto|]. intros v _. apply okr_bind; [auto|]. intros vs _. exact I.
Qed.

Definition post_t (G : senv) (M : sframe) (r : res state) : Prop :=
  match r with
  | ROk st' => R rel_t G M st'
  | RFault _ => True
  | RStuck k => covered k = false
  end.

Lemma post_t_bind_val : forall {A} G M (r : res A) (f : A -> res state),
  okr r -> (forall a, r = ROk a -> post_t G M (f a)) -> post_t G M (rbind r f).
Proof. intros A G M r f Hr Hf. destruct r as [a|ft|k]; simpl; [apply Hf; reflexivity|exact I|exact Hr]. Qed.

Lemma post_t_bind : forall G M G' M' (r : res state) (f : state -> res state),
  post_t G' M' r -> (forall st', R rel_t G' M' st' -> post_t G M (f st')) -> post_t G M (rbind r f).
Proof.
  intros G M G' M' r f Hr Hf. destruct r as [a|ft|k]; simpl in *; [apply Hf; exact Hr|exact I|exact Hr].
Qed.

Lemma ty_target_nil : forall G M x ok what, ty_target G M x ok what = [] ->
  exists t c, slookup x G M = Some (t, c) /\ ok t c = true.
Proof.
  unfold ty_target. intros G M x ok what H. destruct (slookup x G M) as [[t c]|]; [|discriminate].
  exists t, c. split; [reflexivity|]. destruct (ok t c); [reflexivity|discriminate].
Qed.

Lemma val_ok_default : forall t, val_ok t true (default_value t) /\ forall c, val_ok t c (default_value t).
Proof.
  intros t. unfold default_value, val_ok.
  destruct (is_vector_type t) eqn:E; repeat split; intros; try discriminate; try (eexists; reflexivity); exact I.
Qed.

Lemma val_ok_init : forall ev st t e v, eval ev st e = ROk v -> val_ok t (clean_init (Some e)) (init_value t v).
Proof.
  intros ev st t e v Hv. unfold init_value. split.
  - intros Hvec Hc. rewrite Hvec. destruct e; simpl in Hc; try discriminate Hc.
    simpl in Hv. injection Hv as Hv. subst v. eexists. reflexivity.
  - intros Hi. rewrite (int_not_vector t Hi). apply conv_int_nondbl. exact Hi.
Qed.

Lemma run_decls_types : forall ev, ev_ok ev -> forall ds cur G M st, R rel_t (cur :: G) M st ->
  ty_decls mt G M cur ds = [] ->
  post_t ((cur ++ map entry_of_decl ds) :: G) M (run_decls ev ds st).
Proof.
  intros ev Hev ds. induction ds as [|d ds IH]; simpl; intros cur G M st HR H.
  - rewrite app_nil_r. exact HR.
  - apply app_nil2 in H. destruct H as [Hi Hr].
    assert (Hstep : forall v, val_ok (d_type d) (clean_init (d_init d)) v ->
                      post_t ((cur ++ entry_of_decl d :: map entry_of_decl ds) :: G) M
                             (run_decls ev ds (declare (d_name d) (d_type d) v st))).
    { intros v Hv. specialize (IH (cur ++ [entry_of_decl d]) G M (declare (d_name d) (d_type d) v st)).
      rewrite <- app_assoc in IH. simpl in IH. apply IH; [|exact Hr].
      apply R_declare; [exact HR|]. split; [reflexivity|]. split; [reflexivity|exact Hv]. }
    destruct (d_init d) as [e|] eqn:Ei.
    + apply post_t_bind_val.
      * apply (proj1 (eval_types ev (cur :: G) M st HR Hev)). exact Hi.
      * intros v Hv. apply Hstep. apply (val_ok_init ev st (d_type d) e v Hv).
    + apply Hstep. simpl. apply val_ok_default.
Qed.

Lemma val_ok_loop : forall v, val_ok "auto" false v.
Proof. intros v. split; intros H; discriminate H. Qed.

Opaque lookup assign eval truth.
Lemma exec_types : forall brs ev, ev_ok ev ->
  (forall s G M st, R rel_t G M st -> ty_stmt mt G M s = [] -> post_t G M (exec_stmt brs ev s st)) /\
  (forall b G M pre preb st, R rel_t G M st -> Rf rel_t pre preb -> ty_block mt G M pre b = [] ->
        post_t G M (exec_block brs ev b preb st)) /\
  (forall l G M st, R rel_t G M st -> ty_stmts mt G M l = [] -> post_t G M (exec_stmts brs ev l st)).
Proof.
  intros brs ev Hev. apply sbs_mutind2.
  - (* SSet *) intros x c e G M st HR H. simpl in *. apply app_nil2 in H. destruct H as [He Hx].
    apply post_t_bind_val; [apply (proj1 (eval_types ev G M st HR Hev)); exact He|]. intros v _.
    apply ty_target_nil in Hx. destruct Hx as [t [cl [Hs Hok]]]. apply negb_true_iff in Hok.
    destruct (lookup_t G M st x t cl HR Hs) as [w [Hl _]]. rewrite Hl. cbv zeta.
    match goal with |- context [assign x ?nv st] => destruct (assign_t G M st x t w nv HR Hl) as [st' [Ha HR']] end.
    { intros c0. split; [intros Hv; rewrite Hok in Hv; discriminate Hv|intros Hi; apply conv_int_nondbl; exact Hi]. }
    rewrite Ha. exact HR'.
  - (* SPush *) intros x c e G M st HR H. simpl in *. apply app_nil2 in H. destruct H as [He Hx].
    apply post_t_bind_val; [apply (proj1 (eval_types ev G M st HR Hev)); exact He|]. intros v _.
    apply ty_target_nil in Hx. destruct Hx as [t [cl [Hs Hok]]]. apply andb_prop in Hok. destruct Hok as [Hvec Hcl].
    subst cl. destruct (lookup_t G M st x t true HR Hs) as [w [Hl [Hw _]]].
    destruct (Hw Hvec eq_refl) as [l Hwl]. subst w. rewrite Hl. cbv zeta.
    match goal with |- context [assign x ?nv st] => destruct (assign_t G M st x t (VVec l) nv HR Hl) as [st' [Ha HR']] end.
    { intros c0. apply val_ok_vec. }
    rewrite Ha. exact HR'.
  - (* SClear *) intros x G M st HR H. simpl in H. cbn.
    apply ty_target_nil in H. destruct H as [t [cl [Hs Hok]]]. apply andb_prop in Hok. destruct Hok as [Hvec Hcl].
    subst cl. destruct (lookup_t G M st x t true HR Hs) as [w [Hl [Hw _]]].
    destruct (Hw Hvec eq_refl) as [l Hwl]. subst w. rewrite Hl.
    destruct (assign_t G M st x t (VVec l) (VVec []) HR Hl) as [st' [Ha HR']].
    { intros c0. apply val_ok_vec. }
    rewrite Ha. exact HR'.
  - (* SFill *) intros line G M st HR H. simpl. apply R_rows. exact HR.
  - (* SThrow *) intros line G M st HR H. simpl. exact I.
  - (* SFetch *) intros idiom target ct bank lines G M st HR H. simpl in H. cbn.
    destruct (assoc_ss (ct, bank) (ev_colls ev)) as [v|]; [|exact I].
    apply ty_target_nil in H. destruct H as [t [cl [Hs Hok]]]. apply andb_prop in Hok. destruct Hok as [Hni Hnv].
    apply negb_true_iff in Hni. apply negb_true_iff in Hnv.
    destruct (lookup_t G M st target t cl HR Hs) as [w [Hl _]].
    destruct (assign_t G M st target t w v HR Hl) as [st' [Ha HR']].
    { intros c0. split; [intros Hv; rewrite Hnv in Hv; discriminate Hv|intros Hi; rewrite Hni in Hi; discriminate Hi]. }
    rewrite Ha. exact HR'.
  - (* SIota *) intros v b G M st HR H. cbn.
    destruct (lookup v st) as [[t w]|] eqn:Hl; destruct (lookup b st) as [[t2 w2]|] eqn:Hl2;
      try destruct w; try destruct w2; try okleaf.
    destruct (assign_t G M st v t (VVec l) (VVec (iota (List.length l) z)) HR Hl) as [st' [Ha HR']].
    { intros c0. apply val_ok_vec. }
    rewrite Ha. exact HR'.
  - (* SUser *) intros; simpl; reflexivity.
  - (* SLine *) intros; simpl; reflexivity.
  - (* SFor *) intros x e b IHb G M st HR H. simpl in *. apply app_nil2 in H. destruct H as [He Hb].
    apply post_t_bind_val; [apply (proj1 (eval_types ev G M st HR Hev)); exact He|]. intros c _.
    destruct c; try (simpl; okleaf).
    clear He. revert st HR. induction l as [|v l IHl]; intros st HR; [exact HR|].
    apply post_t_bind with (G' := G) (M' := M).
    + apply IHb with (pre := [loop_entry x]); [exact HR| |exact Hb].
      constructor; [|constructor]. split; [reflexivity|]. split; [reflexivity|apply val_ok_loop].
    + intros st' HR'. apply IHl. exact HR'.
  - (* SIf *) intros c b IHb els IHels G M st HR H. simpl in *.
    apply app_nil2 in H. destruct H as [Hc H]. apply app_nil3 in H. destruct H as [_ [Hb He]].
    apply post_t_bind_val; [apply (proj1 (eval_types ev G M st HR Hev)); exact Hc|]. intros v _.
    apply post_t_bind_val; [apply truth_okr|]. intros t _. destruct t.
    + apply IHb with (pre := []); [exact HR|constructor|exact Hb].
    + destruct els as [b2|]; [|exact HR]. simpl in IHels.
      apply IHels with (pre := []); [exact HR|constructor|exact He].
  - (* SBlk *) intros b IHb G M st HR H. simpl in *. apply IHb with (pre := []); [exact HR|constructor|exact H].
  - (* Blk *) intros ds body IHbody G M pre preb st HR Hpre H. simpl in *.
    apply app_nil2 in H. destruct H as [Hd Hs].
    apply post_t_bind with (G' := (pre ++ map entry_of_decl ds) :: G) (M' := M).
    + apply run_decls_types; [exact Hev| |exact Hd]. apply R_push; assumption.
    + intros st1 HR1. apply post_t_bind with (G' := (pre ++ map entry_of_decl ds) :: G) (M' := M).
      * apply IHbody; assumption.
      * intros st2 HR2. simpl. apply R_pop with (f := pre ++ map entry_of_decl ds). exact HR2.
  - (* SNil *) intros G M st HR H. simpl. exact HR.
  - (* SCons *) intros s IHs r IHr G M st HR H. simpl in *. apply app_nil2 in H. destruct H as [H1 H2].
    apply post_t_bind with (G' := G) (M' := M); [apply IHs; assumption|].
    intros st' HR'. apply IHr; assumption.
Qed.
Transparent lookup assign eval truth.
End TypesSound.

Definition members_typed (p : program) (ms : frame) : Prop := Forall2 rel_t (member_env p) ms.

Lemma initial_members_typed : forall p, members_typed p (initial_members (p_members p)).
Proof.
  intros p. unfold members_typed, member_env, initial_members.
  induction (p_members p) as [|m l IH]; simpl; constructor; [|exact IH].
  split; [reflexivity|]. split; [reflexivity|]. simpl. apply val_ok_default.
Qed.

Lemma run_event_types : forall mt p, types_ok mt p = true ->
  forall ev ms, members_typed p ms -> ev_ok mt ev ->
  match run_event p ms ev with
  | ROk (_, ms') => members_typed p ms'
  | RFault _ => True
  | RStuck k => covered k = false
  end.
Proof.
  intros mt p Hty ev ms Hms Hev. unfold run_event.
  apply is_nil_true in Hty. unfold type_errs in Hty.
  pose proof (proj1 (proj2 (exec_types mt (p_branches p) ev Hev)) (p_body p) [] (member_env p) [] []
                {| frames := []; members := ms; rows := [] |}) as H.
  assert (HR : R rel_t [] (member_env p) {| frames := []; members := ms; rows := [] |}).
  { split; simpl; [constructor|exact Hms]. }
  specialize (H HR (Forall2_nil _) Hty).
  destruct (exec_block (p_branches p) ev (p_body p) [] {| frames := []; members := ms; rows := [] |}) as [st|f|k];
    simpl in H; [exact (proj2 H)|exact I|exact H].
Qed.

Theorem types_ok_sound_lemma : forall mt p, types_ok mt p = true ->
  forall ev ms, members_typed p ms -> ev_ok mt ev ->
  forall k, run_event p ms ev = RStuck k -> covered k = false.
Proof.
  intros mt p Hty ev ms Hms Hev k E. pose proof (run_event_types mt p Hty ev ms Hms Hev) as H.
  rewrite E in H. exact H.
Qed.

Lemma run_job_from_types : forall mt p, types_ok mt p = true ->
  forall evs, Forall (ev_ok mt) evs -> forall ms n acc, members_typed p ms ->
  forall m k, run_job_from p ms evs n acc = JStuck m k -> covered k = false.
Proof.
  intros mt p Hty evs Hevs. induction Hevs as [|ev evs Hev Hevs IH]; intros ms n acc Hms m k; simpl; [discriminate|].
  pose proof (run_event_types mt p Hty ev ms Hms Hev) as H.
  destruct (run_event p ms ev) as [[rs ms']|f|k'] eqn:E.
  - apply IH. exact H.
  - discriminate.
  - intros E2. injection E2 as E3 E4. subst k'. exact H.
Qed.

(* ------------------------------------------------------------------------------------------ *)
(* unique_decls: with every name declared once, no declaration shadows another                 *)
(* ------------------------------------------------------------------------------------------ *)
Lemma mem_str_In : forall x l, In x l -> mem_str x l = true.
Proof.
  intros x l. induction l as [|a l IH]; simpl; intros H; [contradiction|].
  destruct H as [H|H]; [subst a; rewrite String.eqb_refl; reflexivity|].
  destruct (String.eqb x a); [reflexivity|apply IH; exact H].
Qed.

Lemma In_mem_str : forall x l, mem_str x l = true -> In x l.
Proof.
  intros x l. induction l as [|a l IH]; simpl; intros H; [discriminate|].
  destruct (String.eqb x a) eqn:E; [left; symmetry; apply String.eqb_eq; exact E|right; apply IH; exact H].
Qed.

Lemma dups_nil_NoDup : forall l, dups l = [] <-> NoDup l.
Proof.
  intros l. induction l as [|a l IH]; simpl; split; intros H; try constructor; try reflexivity.
  - intros Hin. rewrite (mem_str_In a l Hin) in H. discriminate.
  - apply IH. destruct (mem_str a l); [discriminate|exact H].
  - inversion H as [|a' l' Hn Hd]; subst. destruct (mem_str a l) eqn:E; [exfalso; apply Hn; apply In_mem_str; exact E|].
    apply IH. exact Hd.
Qed.

Definition fnames (f : sframe) : list string := map fst f.
Definition enames (G : senv) : list string := List.concat (map fnames G).

(* positions of the program with the static scope the checkers (and Exec) have there *)
Inductive focus := FS (s : stmt) | FB (pre : sframe) (b : block) | FL (l : stmts).
Definition focus_decls (f : focus) : list string :=
  match f with FS s => decls_stmt s | FB pre b => fnames pre ++ decls_block b | FL l => decls_stmts l end.

Inductive step : senv -> focus -> senv -> focus -> Prop :=
| st_for G x e b : step G (FS (SFor x e b)) G (FB [loop_entry x] b)
| st_if1 G c b els : step G (FS (SIf c b els)) G (FB [] b)
| st_if2 G c b b2 : step G (FS (SIf c b (Some b2))) G (FB [] b2)
| st_blk G b : step G (FS (SBlk b)) G (FB [] b)
| st_body G pre ds body : step G (FB pre (Blk ds body)) ((pre ++ map entry_of_decl ds) :: G) (FL body)
| st_hd G s r : step G (FL (SCons s r)) G (FS s)
| st_tl G s r : step G (FL (SCons s r)) G (FL r).

Inductive reaches : senv -> focus -> senv -> focus -> Prop :=
| r_refl G f : reaches G f G f
| r_step G f G1 f1 G2 f2 : step G f G1 f1 -> reaches G1 f1 G2 f2 -> reaches G f G2 f2.

Lemma NoDup_app_remove_l : forall {A} (a b : list A), NoDup (a ++ b) -> NoDup b.
Proof.
  intros A a b. induction a as [|x a IH]; simpl; intros H; [exact H|].
  inversion H as [|x' l' Hn Hd]; subst. apply IH. exact Hd.
Qed.

Lemma NoDup_sub : forall {A} (a b c : list A), NoDup (a ++ b ++ c) -> NoDup (a ++ c).
Proof.
  intros A a b c. induction a as [|x a IH]; simpl; intros H.
  - apply NoDup_app_remove_l in H. exact H.
  - inversion H as [|x' l' Hn Hd]; subst. constructor; [|apply IH; exact Hd].
    intros Hin. apply Hn. apply in_app_or in Hin. apply in_or_app.
    destruct Hin as [Hin|Hin]; [left; exact Hin|right; apply in_or_app; right; exact Hin].
Qed.

Lemma NoDup_block_swap : forall {A} (p d b g m : list A),
  NoDup ((p ++ d ++ b) ++ g ++ m) -> NoDup (b ++ ((p ++ d) ++ g) ++ m).
Proof.
  intros A p d b g m H. rewrite <- !app_assoc in H. rewrite <- !app_assoc.
  rewrite (app_assoc p d) in H. rewrite (app_assoc p d).
  apply (Permutation_NoDup (l := (p ++ d) ++ b ++ g ++ m)); [|exact H].
  apply Permutation_app_swap_app.
Qed.

Definition inv (mn : list string) (G : senv) (f : focus) : Prop := NoDup (focus_decls f ++ enames G ++ mn).

Lemma fnames_entries : forall pre ds, fnames (pre ++ map entry_of_decl ds) = fnames pre ++ map d_name ds.
Proof. intros pre ds. unfold fnames. rewrite map_app, map_map. reflexivity. Qed.

Lemma step_inv : forall mn G f G' f', step G f G' f' -> inv mn G f -> inv mn G' f'.
Proof.
  intros mn G f G' f' Hs. unfold inv. destruct Hs; simpl; intros H.
  - exact H.
  - rewrite <- app_assoc in H. apply NoDup_sub in H. exact H.
  - rewrite <- app_assoc in H. apply NoDup_app_remove_l in H. exact H.
  - exact H.
  - change (enames ((pre ++ map entry_of_decl ds) :: G)) with (fnames (pre ++ map entry_of_decl ds) ++ enames G).
    rewrite fnames_entries.
    apply NoDup_block_swap. exact H.
  - rewrite <- app_assoc in H. apply NoDup_sub in H. exact H.
  - rewrite <- app_assoc in H. apply NoDup_app_remove_l in H. exact H.
Qed.

Lemma reaches_inv : forall mn G f G' f', reaches G f G' f' -> inv mn G f -> inv mn G' f'.
Proof.
  intros mn G f G' f' Hr. induction Hr as [|G f G1 f1 G2 f2 Hs Hr IH]; intros H; [exact H|].
  apply IH. apply (step_inv mn G f G1 f1 Hs H).
Qed.

Lemma unique_decls_scope_NoDup : forall p, unique_decls p = true ->
  forall G f, reaches [] (FB [] (p_body p)) G f -> NoDup (enames G ++ map m_name (p_members p)).
Proof.
  intros p Hu G f Hr. apply is_nil_true in Hu. apply dups_nil_NoDup in Hu. unfold declared_names in Hu.
  assert (H0 : inv (map m_name (p_members p)) [] (FB [] (p_body p))).
  { unfold inv. simpl. apply (Permutation_NoDup (l := map m_name (p_members p) ++ decls_block (p_body p))); [|exact Hu].
    apply Permutation_app_comm. }
  pose proof (reaches_inv _ _ _ _ _ Hr H0) as H. unfold inv in H. apply NoDup_app_remove_l in H. exact H.
Qed.

(* lookup finds the unique binding *)
Lemma sget_app : forall x a b, sget x (a ++ b) = match sget x a with Some v => Some v | None => sget x b end.
Proof.
  intros x a b. induction a as [|[y tc] a IH]; simpl; [reflexivity|]. destruct (String.eqb x y); [reflexivity|exact IH].
Qed.

Lemma slookup_flat : forall x G M, slookup x G M = sget x (List.concat G ++ M).
Proof.
  intros x G M. unfold slookup. rewrite sget_app. replace (sgets x G) with (sget x (List.concat G)); [reflexivity|].
  induction G as [|f G IH]; simpl; [reflexivity|]. rewrite sget_app, IH. reflexivity.
Qed.

Lemma sget_unique : forall l x tc, NoDup (map fst l) -> In (x, tc) l -> sget x l = Some tc.
Proof.
  intros l x tc. induction l as [|[y tc'] l IH]; simpl; intros Hn Hin; [contradiction|].
  inversion Hn as [|y' l' Hny Hd]; subst. destruct Hin as [Hin|Hin].
  - injection Hin as E1 E2. subst. rewrite String.eqb_refl. reflexivity.
  - destruct (String.eqb_spec x y) as [E|E].
    + subst y. exfalso. apply Hny. apply (in_map fst l (x, tc) Hin).
    + apply IH; assumption.
Qed.

Lemma frame_get_app : forall x a b, frame_get x (a ++ b) = match frame_get x a with Some v => Some v | None => frame_get x b end.
Proof.
  intros x a b. induction a as [|[y tv] a IH]; simpl; [reflexivity|]. destruct (String.eqb x y); [reflexivity|exact IH].
Qed.

Lemma lookup_flat : forall x st, lookup x st = frame_get x (List.concat (frames st) ++ members st).
Proof.
  intros x st. unfold lookup. rewrite frame_get_app.
  replace (frames_get x (frames st)) with (frame_get x (List.concat (frames st))); [reflexivity|].
  induction (frames st) as [|f G IH]; simpl; [reflexivity|]. rewrite frame_get_app, IH. reflexivity.
Qed.

Lemma frame_get_unique : forall (l : frame) x tv, NoDup (map fst l) -> In (x, tv) l -> frame_get x l = Some tv.
Proof.
  intros l x tv. induction l as [|[y tv'] l IH]; simpl; intros Hn Hin; [contradiction|].
  inversion Hn as [|y' l' Hny Hd]; subst. destruct Hin as [Hin|Hin].
  - injection Hin as E1 E2. subst. rewrite String.eqb_refl. reflexivity.
  - destruct (String.eqb_spec x y) as [E|E].
    + subst y. exfalso. apply Hny. apply (in_map fst l (x, tv) Hin).
    + apply IH; assumption.
Qed.

Lemma Rf_names : forall f g, Rf rel_n f g -> map fst g = fnames f.
Proof.
  intros f g H. induction H as [|e b f g Hr HF IH]; simpl; [reflexivity|]. rewrite IH. rewrite Hr. reflexivity.
Qed.

Lemma R_names : forall G M st, R rel_n G M st ->
  map fst (List.concat (frames st) ++ members st) = enames G ++ fnames M.
Proof.
  intros G M st [HG HM]. rewrite map_app. f_equal; [|apply Rf_names; exact HM].
  induction HG as [|f g G fs Hf HF IH]; simpl; [reflexivity|].
  rewrite map_app. unfold enames in *. simpl. f_equal; [apply Rf_names; exact Hf|exact IH].
Qed.

Lemma enames_concat : forall (G : senv), enames G = map fst (List.concat G).
Proof.
  intros G. unfold enames. induction G as [|f G IH]; simpl; [reflexivity|]. rewrite map_app, IH. reflexivity.
Qed.

Theorem unique_decls_no_shadow_static_lemma : forall p, unique_decls p = true ->
  forall G f, reaches [] (FB [] (p_body p)) G f ->
  forall x tc, In (x, tc) (List.concat G ++ member_env p) -> slookup x G (member_env p) = Some tc.
Proof.
  intros p Hu G f Hr x tc Hin. rewrite slookup_flat. apply sget_unique; [|exact Hin].
  rewrite map_app. pose proof (unique_decls_scope_NoDup p Hu G f Hr) as H.
  rewrite <- member_env_names in H.
  rewrite (enames_concat G) in H. exact H.
Qed.

Theorem unique_decls_no_shadow_lemma : forall p, unique_decls p = true ->
  forall G f, reaches [] (FB [] (p_body p)) G f ->
  forall st, R rel_n G (member_env p) st ->
  forall x tv, In (x, tv) (List.concat (frames st) ++ members st) -> lookup x st = Some tv.
Proof.
  intros p Hu G f Hr st HR x tv Hin. rewrite lookup_flat. apply frame_get_unique; [|exact Hin].
  rewrite (R_names G (member_env p) st HR).
  pose proof (unique_decls_scope_NoDup p Hu G f Hr) as H. rewrite <- member_env_names in H. exact H.
Qed.

(* the positions `reaches` enumerates are the ones the scope checker visits, with the same scope *)
Definition sc_focus (D : list string) (G : senv) (M : sframe) (f : focus) : list string :=
  match f with
  | FS s => sc_stmt D G M s
  | FB pre b => sc_block D G M pre b
  | FL l => sc_stmts D G M l
  end.

Lemma reaches_scoped : forall D M G f G' f', reaches G f G' f' -> sc_focus D G M f = [] -> sc_focus D G' M f' = [].
Proof.
  intros D M G f G' f' Hr. induction Hr as [|G f G1 f1 G2 f2 Hs Hr IH]; intros H; [exact H|].
  apply IH. clear IH Hr. destruct Hs; simpl in *.
  - apply app_nil2 in H. exact (proj2 H).
  - apply app_nil3 in H. exact (proj1 (proj2 H)).
  - apply app_nil3 in H. exact (proj2 (proj2 H)).
  - exact H.
  - apply app_nil2 in H. exact (proj2 H).
  - apply app_nil2 in H. exact (proj1 H).
  - apply app_nil2 in H. exact (proj2 H).
Qed.

(* ------------------------------------------------------------------------------------------ *)
(* whole jobs                                                                                  *)
(* ------------------------------------------------------------------------------------------ *)
Theorem well_scoped_job_lemma : forall p, well_scoped p = true ->
  forall evs m x, run_job p evs <> JStuck m (KUnbound x).
Proof.
  intros p Hws evs m x. unfold run_job. apply run_job_from_scope; [exact Hws|apply initial_members_binds].
Qed.

Theorem types_ok_job_lemma : forall mt p, types_ok mt p = true ->
  forall evs, Forall (ev_ok mt) evs -> forall m k, run_job p evs = JStuck m k -> covered k = false.
Proof.
  intros mt p Hty evs Hevs m k. unfold run_job.
  apply (run_job_from_types mt p Hty evs Hevs); apply initial_members_typed.
Qed.

(* ------------------------------------------------------------------------------------------ *)
(* witnesses                                                                                   *)
(* ------------------------------------------------------------------------------------------ *)
Definition ev0 : event := {| ev_colls := []; ev_meths := [] |}.
Definition mkdecl (t x : string) (i : option cexp) : decl := {| d_type := t; d_name := x; d_init := i |}.
Definition mkprog (ms : list member) (b : block) : program :=
  {| p_members := ms; p_tree := "t"; p_branches := []; p_book_extra := []; p_body := b |}.

(* accepted by all three checkers and runs: a count, a vector column, a modulo on ints *)
Definition p_good : program :=
  {| p_members := [ {| m_type := "int"; m_name := "_a" |}; {| m_type := "std::vector<int>"; m_name := "_b" |} ];
     p_tree := "t"; p_branches := [ {| br_name := "a"; br_var := "_a" |}; {| br_name := "b"; br_var := "_b" |} ];
     p_book_extra := []; p_body :=
    (Blk [mkdecl "int" "agg1" (Some (CInt 0)); mkdecl "int" "n2" (Some (CBin "+" (CVar "agg1") (CInt 5)))]
       (SCons (SSet "agg1" None (CBin "%" (CVar "n2") (CInt 3)))
       (SCons (SPush "_b" None (CVar "agg1"))
       (SCons (SSet "_a" None (CVar "agg1"))
       (SCons (SFill "fill") (SCons (SClear "_b") SNil)))))) |}.

(* the accumulator is declared in an inner block and read after that block has been left *)
Definition p_out_of_block : program :=
  mkprog [ {| m_type := "int"; m_name := "_a" |} ]
    (Blk []
       (SCons (SBlk (Blk [mkdecl "int" "aggResult3" (Some (CInt 0))] SNil))
       (SCons (SSet "_a" None (CVar "aggResult3")) SNil))).

(* a declaration initialiser that reads a name declared later in the same block *)
Definition p_read_before_decl : program :=
  mkprog []
    (Blk [mkdecl "int" "a1" (Some (CVar "b2")); mkdecl "int" "b2" (Some (CInt 0))] SNil).

(* one member name declared twice (the miniAOD token shape) *)
Definition p_dup_member : program :=
  mkprog [ {| m_type := "edm::EDGetTokenT<A>"; m_name := "token0" |};
           {| m_type := "edm::EDGetTokenT<B>"; m_name := "token0" |} ]
    (Blk [] SNil).

(* % with a double operand *)
Definition p_mod_double : program :=
  mkprog [ {| m_type := "double"; m_name := "_a" |} ]
    (Blk [mkdecl "double" "x1" (Some (CDbl "2.5" 5 2))]
       (SCons (SSet "_a" None (CBin "%" (CVar "x1") (CInt 2))) SNil)).

(* push_back on a scalar *)
Definition p_push_scalar : program :=
  mkprog [ {| m_type := "int"; m_name := "_a" |} ]
    (Blk [] (SCons (SPush "_a" None (CInt 1)) SNil)).

Lemma scope_refuted_lemma :
  well_scoped p_out_of_block = false /\ unique_decls p_out_of_block = true /\
  run_event p_out_of_block (initial_members (p_members p_out_of_block)) ev0 = RStuck (KUnbound "aggResult3").
Proof. vm_compute. repeat split. Qed.

Lemma read_before_decl_refuted_lemma :
  well_scoped p_read_before_decl = false /\
  run_event p_read_before_decl [] ev0 = RStuck (KUnbound "b2").
Proof. vm_compute. repeat split. Qed.

Lemma unique_refuted_lemma :
  unique_decls p_dup_member = false /\ dup_errs p_dup_member = ["token0"] /\
  let st := {| frames := []; members := initial_members (p_members p_dup_member); rows := [] |} in
  In ("token0", ("edm::EDGetTokenT<B>", VUninit)) (members st) /\
  lookup "token0" st = Some ("edm::EDGetTokenT<A>", VUninit).
Proof. vm_compute. repeat split. right. left. reflexivity. Qed.

Lemma types_refuted_lemma :
  types_ok [] p_mod_double = false /\ well_scoped p_mod_double = true /\
  run_event p_mod_double (initial_members (p_members p_mod_double)) ev0
    = RStuck (KType "% with a floating operand is ill-formed C++") /\
  types_ok [] p_push_scalar = false /\
  run_event p_push_scalar (initial_members (p_members p_push_scalar)) ev0
    = RStuck (KType "push_back on non-vector _a").
Proof. vm_compute. repeat split. Qed.

(* ---------- vector element types ---------- *)
(* what the push rule accepts: when the target and the pushed variable are both declared vector types, the pushed
   variable's declared type IS the target's element type *)
Lemma vt_push_spec_lemma : forall G M x y tx ty,
  vt_push G M x (CVar y) = [] -> var_vtype G M x = Some tx -> var_vtype G M y = Some ty ->
  vec_elem tx = Some ty.
Proof.
  intros G M x y tx ty H Hx Hy. unfold vt_push, pushed_vtype in H. rewrite Hx, Hy in H.
  assert (Hv : is_vector_type tx = true).
  { unfold var_vtype in Hx. destruct (slookup x G M) as [[t c]|]; [|discriminate].
    cbv zeta in Hx. destruct (is_vector_type (nospace t)) eqn:E; [|discriminate]. injection Hx as <-. exact E. }
  unfold vec_elem in *. rewrite Hv in *.
  destruct (String.eqb (substring 12 (String.length tx - 13) tx) ty) eqn:E; [|discriminate].
  apply String.eqb_eq in E. rewrite E. reflexivity.
Qed.

(* what the cast rule accepts: a declared vector is only ever cast to its own type *)
Lemma vt_cast_spec_lemma : forall G M ty y t,
  vt_cast G M ty (CVar y) = [] -> var_vtype G M y = Some t -> is_vector_type (nospace ty) = true -> nospace ty = t.
Proof.
  intros G M ty y t H Hy Hv. unfold vt_cast in H. rewrite Hy, Hv in H. simpl in H.
  destruct (String.eqb (nospace ty) t) eqn:E; [apply String.eqb_eq; exact E|discriminate].
Qed.

(* the 2-D column of an enum-typed method: member of the raw element type (accepted), and the same body with the
   member re-declared vector<vector<int>> and the push wrapped in static_cast<std::vector<int>> (both rules fire) *)
Definition body_2d (push : cexp) : block :=
  Blk [] (SCons (SFor "i_obj1" (CVar "jets0")
           (Blk [mkdecl "std::vector<MyNS::Color>" "ntuple5" None]
              (SCons (SPush "ntuple5" None (CMeth (CVar "i_obj1") true "color" CNil))
              (SCons (SPush "_col13" None push) SNil)))) SNil).
Definition p_vec2d_good : program :=
  mkprog [ {| m_type := "std::vector<std::vector<MyNS::Color>>"; m_name := "_col13" |} ] (body_2d (CVar "ntuple5")).
Definition p_vec2d_cast : program :=
  mkprog [ {| m_type := "std::vector<std::vector<int>>"; m_name := "_col13" |} ]
         (body_2d (CCast "std::vector<int>" (CVar "ntuple5"))).
Definition p_vec2d_push : program :=
  mkprog [ {| m_type := "std::vector<std::vector<int> >"; m_name := "_col13" |} ] (body_2d (CVar "ntuple5")).

Lemma vtypes_examples_lemma :
  vtypes_ok p_vec2d_good = true /\ types_ok [] p_vec2d_good = true /\
  vtype_errs p_vec2d_cast = ["vector-cast:ntuple5"] /\ types_ok [] p_vec2d_cast = true /\
  vtype_errs p_vec2d_push = ["push-element-type:_col13"].
Proof. vm_compute. repeat split. Qed.

Lemma good_lemma :
  well_scoped p_good = true /\ unique_decls p_good = true /\ types_ok [] p_good = true /\
  run_event p_good (initial_members (p_members p_good)) ev0
    = ROk ([[VInt 2; VVec [VInt 2]]] , [("_a", ("int", VInt 2)); ("_b", ("std::vector<int>", VVec []))]).
Proof. vm_compute. repeat split. Qed.
