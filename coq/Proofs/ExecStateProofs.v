(* Proofs about Model/ExecState.v: every query handled by the (fixed) wrapper leaves the
   process in a default state, whatever the stage at which it raised; lifted over fold_left to
   every history; independence of the probe query follows.  Witnesses for the unfixed wrapper. *)
From FV Require Import Base.Prelude Model.ScriptBlocks Model.ExecState.

(* ------------------------------------------------------------------------------------------ *)
(* algebra of mt_set / mt_merge (Python dict assignment)                                       *)
(* ------------------------------------------------------------------------------------------ *)
Lemma mkey_eqb_eq : forall a b : mkey, mkey_eqb a b = true <-> a = b.
Proof.
  intros [a1 a2] [b1 b2]. unfold mkey_eqb. simpl. rewrite andb_true_iff, !String.eqb_eq.
  split; [intros [-> ->]; reflexivity | intros H; inversion H; auto].
Qed.

Lemma mkey_eqb_refl : forall a : mkey, mkey_eqb a a = true.
Proof. intros a. apply mkey_eqb_eq. reflexivity. Qed.

Lemma mkey_eqb_neq : forall a b : mkey, mkey_eqb a b = false <-> a <> b.
Proof.
  intros a b. split.
  - intros H E. apply mkey_eqb_eq in E. congruence.
  - intros H. destruct (mkey_eqb a b) eqn:E; [apply mkey_eqb_eq in E; contradiction | reflexivity].
Qed.

Lemma mkey_eq_dec : forall a b : mkey, {a = b} + {a <> b}.
Proof. intros a b. destruct (mkey_eqb a b) eqn:E; [left; apply mkey_eqb_eq; exact E | right; apply mkey_eqb_neq; exact E]. Qed.

Definition keys (t : mtab) : list mkey := map fst t.

Lemma mt_merge_cons : forall (t : mtab) (kv : mkey * string) (d : list (mkey * string)),
  mt_merge t (kv :: d) = mt_merge (mt_set (fst kv) (snd kv) t) d.
Proof. reflexivity. Qed.

Lemma mt_set_set : forall (k : mkey) (v1 v2 : string) (t : mtab),
  mt_set k v2 (mt_set k v1 t) = mt_set k v2 t.
Proof.
  intros k v1 v2 t. induction t as [|[k' v'] r IH]; simpl.
  - rewrite mkey_eqb_refl. reflexivity.
  - destruct (mkey_eqb k k') eqn:E; simpl; rewrite E; [reflexivity | rewrite IH; reflexivity].
Qed.

Lemma mt_set_comm : forall (k1 k2 : mkey) (v1 v2 : string) (t : mtab),
  k1 <> k2 -> In k1 (keys t) ->
  mt_set k2 v2 (mt_set k1 v1 t) = mt_set k1 v1 (mt_set k2 v2 t).
Proof.
  intros k1 k2 v1 v2 t Hne. induction t as [|[k' v'] r IH]; simpl; intros Hin; [contradiction|].
  destruct (mkey_eqb k1 k') eqn:E1; destruct (mkey_eqb k2 k') eqn:E2; simpl; rewrite ?E1, ?E2; try reflexivity.
  - apply mkey_eqb_eq in E1. apply mkey_eqb_eq in E2. congruence.
  - destruct Hin as [Hin|Hin]; [apply mkey_eqb_neq in E1; congruence|].
    rewrite IH by exact Hin. reflexivity.
Qed.

Lemma in_keys_mt_set_self : forall (k : mkey) (v : string) (t : mtab), In k (keys (mt_set k v t)).
Proof.
  intros k v t. induction t as [|[k' v'] r IH]; simpl; [left; reflexivity|].
  destruct (mkey_eqb k k') eqn:E; simpl; [left; apply mkey_eqb_eq in E; auto | right; exact IH].
Qed.

Lemma in_keys_mt_set : forall (k k' : mkey) (v : string) (t : mtab),
  In k (keys t) -> In k (keys (mt_set k' v t)).
Proof.
  intros k k' v t. induction t as [|[k0 v0] r IH]; simpl; [contradiction|].
  intros [H|H]; destruct (mkey_eqb k' k0); simpl; auto.
Qed.

Lemma in_keys_merge : forall (d : list (mkey * string)) (k : mkey) (t : mtab),
  In k (keys t) -> In k (keys (mt_merge t d)).
Proof.
  induction d as [|[k' v'] d IH]; intros k t H; [exact H|].
  rewrite mt_merge_cons. apply IH. apply in_keys_mt_set. exact H.
Qed.

Lemma merge_overwritten : forall (d : list (mkey * string)) (k : mkey) (v : string) (w : mtab),
  In k (keys d) -> In k (keys w) -> mt_merge (mt_set k v w) d = mt_merge w d.
Proof.
  induction d as [|[k1 v1] d IH]; intros k v w Hd Hw; [contradiction|].
  rewrite !mt_merge_cons. simpl fst. simpl snd.
  destruct (mkey_eq_dec k k1) as [->|Hne].
  - rewrite mt_set_set. reflexivity.
  - destruct Hd as [Hd|Hd]; [simpl in Hd; congruence|].
    rewrite mt_set_comm by assumption.
    apply IH; [exact Hd | apply in_keys_mt_set; exact Hw].
Qed.

Lemma merge_set_comm : forall (d : list (mkey * string)) (k : mkey) (v : string) (w : mtab),
  ~ In k (keys d) -> In k (keys w) -> mt_set k v (mt_merge w d) = mt_merge (mt_set k v w) d.
Proof.
  induction d as [|[k1 v1] d IH]; intros k v w Hd Hw; [reflexivity|].
  rewrite !mt_merge_cons. simpl fst. simpl snd.
  assert (Hne : k <> k1) by (intros ->; apply Hd; left; reflexivity).
  rewrite IH.
  - rewrite (mt_set_comm k k1 v v1 w Hne Hw). reflexivity.
  - intros H. apply Hd. right. exact H.
  - apply in_keys_mt_set. exact Hw.
Qed.

(* re-running a sequence of add_method_type_info calls on its own result changes nothing *)
Lemma mt_merge_idem : forall (d : list (mkey * string)) (t : mtab),
  mt_merge (mt_merge t d) d = mt_merge t d.
Proof.
  induction d as [|[k v] d IH]; intros t; [reflexivity|].
  rewrite (mt_merge_cons t). simpl fst. simpl snd.
  rewrite mt_merge_cons. simpl fst. simpl snd.
  set (u := mt_set k v t).
  assert (Hu : In k (keys u)) by apply in_keys_mt_set_self.
  destruct (in_dec mkey_eq_dec k (keys d)) as [Hin|Hnin].
  - rewrite merge_overwritten; [apply IH | exact Hin | apply in_keys_merge; exact Hu].
  - rewrite merge_set_comm by assumption. unfold u. rewrite mt_set_set. apply IH.
Qed.

(* ------------------------------------------------------------------------------------------ *)
(* lists                                                                                       *)
(* ------------------------------------------------------------------------------------------ *)
Lemma Forall_replace_nth : forall {A} (P : A -> Prop) (l : list A) (k : nat) (x : A),
  Forall P l -> P x -> Forall P (replace_nth k x l).
Proof.
  intros A P l. induction l as [|y r IH]; intros k x Hl Hx; destruct k; simpl; try constructor;
    inversion Hl; subst; auto.
Qed.

Lemma replace_nth_nil_iff : forall {A} (l : list A) (k : nat) (x : A), replace_nth k x l = [] <-> l = [].
Proof. intros A l k x. destruct l; destruct k; simpl; split; try tauto; discriminate. Qed.

Lemma Forall_nth : forall {A} (P : A -> Prop) (l : list A) (k : nat) (d : A),
  Forall P l -> k < List.length l -> P (nth k l d).
Proof.
  intros A P l. induction l as [|y r IH]; intros k d Hl Hk; simpl in Hk; [lia|].
  inversion Hl; subst. destruct k; simpl; [assumption | apply IH; [assumption | lia]].
Qed.

Definition rmap {A B} (f : A -> B) (r : result A) : result B :=
  match r with OK a => OK (f a) | Error e => Error e end.

(* ------------------------------------------------------------------------------------------ *)
(* the wrapper                                                                                 *)
(* ------------------------------------------------------------------------------------------ *)
(* call-by-value unfolding of the wrapper on a focus given by constructors: projections are
   resolved as they are met, so the term stays small *)
Ltac unfold_wrapper :=
  cbv beta iota zeta delta [handle_focus apply_ast write_cpp fail add_extended_md current_ext set_found set_exe
                            reset_f view_of fixed v_reset_on_failure v_reset_ns v_own_ext v_clear_found v_copy_methods
                            f_mt f_ns f_counter f_shared f_exe e_backend e_jobs e_inject e_ext e_found e_methods].

Ltac fin := cbn; repeat split; try reflexivity.

Definition clean_exec (e : exec) : Prop := e_jobs e = [] /\ e_inject e = [] /\ e_ext e = Some [] /\ e_methods e = [].

Section WrapperProofs.
  Variables query body pkg : Type.
  Variable raw : backend -> list (mkey * string).
  Variable extract : query -> result (list decl * body).
  Variable passes : body -> result body.
  Variable finder : backend -> list string -> list spec -> body -> result body.
  Variable T : backend -> nat -> view -> body -> result pkg * nat.

  Notation hf := (handle_focus query body pkg raw extract passes finder T fixed).
  Notation stepF := (step query body pkg raw extract passes finder T fixed).
  Notation runF := (run query body pkg raw extract passes finder T fixed).
  Notation outputF := (output query body pkg raw extract passes finder T fixed).
  Notation constructF := (construct raw fixed).

  Definition defaults (b : backend) : mtab := mt_merge [] (raw b).
  (* the registry after constructors/resets of the backends in [bs], in that order *)
  Definition trail_mt (bs : list backend) : mtab := fold_left (fun t b => mt_merge t (raw b)) bs [].

  Definition op_backend (o : op query) : backend :=
    match o with Create b => b | Handle _ b _ _ => b end.

  (* ---- every Handle, whatever its outcome, ends in the default state ---- *)
  Lemma handle_focus_ends_clean : forall (f : focus) (dk : option (string * string)) (q : query),
    e_methods (f_exe f) = [] ->
    let f' := fst (hf f dk q) in
    f_mt f' = defaults (e_backend (f_exe f)) /\ f_ns f' = [] /\ clean_exec (f_exe f') /\
    e_backend (f_exe f') = e_backend (f_exe f).
  Proof.
    intros [mt ns n sh [b jobs inj ext fnd mth]] dk q Hm. simpl in Hm. subst mth. unfold clean_exec, defaults.
    destruct dk as [[k p]|]; destruct ext as [d|]; unfold_wrapper; cbn [fixed v_reset_on_failure v_reset_ns v_own_ext v_clear_found v_copy_methods f_exe e_ext f_mt f_ns f_counter f_shared e_backend e_jobs e_inject e_found e_methods];
      (destruct (extract q) as [[mds bd]|e0]; cbn; [|solve [fin]]);
      (match goal with |- context [process_metadata ?a ?b ?c ?d ?e] => destruct (process_metadata a b c d e) as [[mt' ns'] [specs|e1]] end; cbn; [|solve [fin]]);
      (destruct (passes bd) as [bd1|e2]; cbn; [|solve [fin]]);
      (destruct (callbacks_ok b specs); cbn; [|solve [fin]]);
      (match goal with |- context [finder ?a ?t ?c ?d] => destruct (finder a t c d) as [bd2|e3] end; cbn; [|solve [fin]]);
      (match goal with |- context [T ?a ?b ?c ?d] => destruct (T a b c d) as [[p0|e4] n'] end; solve [fin]).
  Qed.

  (* ---- the invariant ---- *)
  Definition InvP (P : backend -> Prop) (s : state) : Prop :=
    g_ns s = [] /\
    Forall (fun e => clean_exec e /\ P (e_backend e)) (g_execs s) /\
    exists bs, Forall P bs /\ g_mt s = trail_mt bs /\ (g_execs s <> [] -> bs <> []).

  Lemma trail_mt_snoc : forall bs b, trail_mt (bs ++ [b]) = mt_merge (trail_mt bs) (raw b).
  Proof. intros bs b. unfold trail_mt. rewrite fold_left_app. reflexivity. Qed.

  Lemma InvP_sigma0 : forall P, InvP P sigma0.
  Proof.
    intros P. repeat split; simpl; [constructor|]. exists []. repeat split; [constructor | tauto].
  Qed.

  Lemma construct_inv : forall P b s, InvP P s -> P b -> InvP P (constructF b s).
  Proof.
    intros P b s (Hns & Hex & bs & Hbs & Hmt & Hne) Hb. unfold construct. repeat split; simpl.
    - exact Hns.
    - apply Forall_app. split; [exact Hex|]. constructor; [|constructor]. unfold clean_exec. simpl. auto.
    - exists (bs ++ [b]). repeat split.
      + apply Forall_app. split; [exact Hbs | constructor; [exact Hb | constructor]].
      + rewrite trail_mt_snoc, Hmt. reflexivity.
      + intros _ H. destruct bs; discriminate.
  Qed.

  Lemma select_inv : forall P w b s s1 k, InvP P s -> P b ->
    select raw fixed w b s = (s1, k) -> InvP P s1 /\ k < List.length (g_execs s1).
  Proof.
    intros P w b s s1 k Hinv Hb Hsel.
    assert (Hc : InvP P (constructF b s) /\ List.length (g_execs s) < List.length (g_execs (constructF b s))).
    { split; [apply construct_inv; assumption|]. simpl. rewrite app_length. simpl. lia. }
    unfold select in Hsel. destruct w as [|k0].
    - inversion Hsel; subst. exact Hc.
    - destruct (Nat.ltb k0 (List.length (g_execs s))) eqn:E; inversion Hsel; subst.
      + apply Nat.ltb_lt in E. split; assumption.
      + exact Hc.
  Qed.

  Lemma step_inv : forall P s o, InvP P s -> P (op_backend o) -> InvP P (fst (stepF s o)).
  Proof.
    intros P s o Hinv Hb. destruct o as [b|w b dk q]; simpl in Hb.
    - simpl. apply construct_inv; assumption.
    - unfold step. destruct (select raw fixed w b s) as [s1 k] eqn:Hsel.
      destruct (select_inv P w b s s1 k Hinv Hb Hsel) as [(Hns & Hex & bs & Hbs & Hmt & Hne) Hk].
      set (e := nth k (g_execs s1) (blank b)).
      assert (He : clean_exec e /\ P (e_backend e)).
      { unfold e. apply (Forall_nth (fun e => clean_exec e /\ P (e_backend e))); assumption. }
      pose proof (handle_focus_ends_clean (focus_of s1 e) dk q (proj2 (proj2 (proj2 (proj1 He))))) as Hc.
      destruct (hf (focus_of s1 e) dk q) as [f out] eqn:Hhf. cbn [fst] in *.
      destruct Hc as (Hfm & Hfn & Hfc & Hfb). simpl in Hfm, Hfb.
      unfold unfocus. repeat split; cbn [g_ns g_execs g_mt fst].
      + exact Hfn.
      + apply Forall_replace_nth; [exact Hex|]. split; [exact Hfc | rewrite Hfb; apply He].
      + exists [e_backend e]. repeat split.
        * constructor; [apply He | constructor].
        * rewrite Hfm. reflexivity.
        * intros _ H. discriminate.
  Qed.

  Lemma run_inv : forall P h s, InvP P s -> Forall (fun o => P (op_backend o)) h -> InvP P (runF h s).
  Proof.
    intros P h. induction h as [|o r IH]; intros s Hinv Hall; simpl; [exact Hinv|].
    inversion Hall; subst. apply IH; [apply step_inv; assumption | assumption].
  Qed.

  (* every reachable state: no enum, clean executors, and the method-type registry holds nothing
     but default tables of backends that were used in this process *)
  Theorem ends_clean : forall (h : list (op query)),
    let s := runF h sigma0 in
    g_ns s = [] /\ Forall clean_exec (g_execs s) /\
    exists bs, g_mt s = trail_mt bs /\ forall b, In b bs -> exists o, In o h /\ op_backend o = b.
  Proof.
    intros h s.
    assert (H : InvP (fun b => exists o, In o h /\ op_backend o = b) s).
    { apply run_inv; [apply InvP_sigma0|]. apply Forall_forall. intros o Ho. exists o. auto. }
    destruct H as (Hns & Hex & bs & Hbs & Hmt & _). repeat split; [exact Hns | |].
    - eapply Forall_impl; [|exact Hex]. intros e [He _]. exact He.
    - exists bs. split; [exact Hmt|]. intros b Hb. rewrite Forall_forall in Hbs. apply Hbs. exact Hb.
  Qed.

  (* ---- one backend: the registry is exactly that backend's default table ---- *)
  Lemma trail_same : forall b bs, Forall (eq b) bs -> bs <> [] -> trail_mt bs = defaults b.
  Proof.
    intros b bs. induction bs as [|b' r IH] using rev_ind; intros Hall Hne; [congruence|].
    apply Forall_app in Hall. destruct Hall as [Hr Hb]. inversion Hb; subst b'.
    rewrite trail_mt_snoc. destruct r as [|y0 r0].
    - reflexivity.
    - rewrite IH by (assumption || discriminate). unfold defaults. apply mt_merge_idem.
  Qed.

  Section Observation.
    Variable norm : pkg -> pkg.
    (* the name counter only renames: the translator's result, up to [norm], does not depend on it *)
    Hypothesis T_renames : forall b n m vw bd, rmap norm (fst (T b n vw bd)) = rmap norm (fst (T b m vw bd)).

    Definition obs_norm (o : option (outcome pkg)) : option (result (pkg * list (string * string))) :=
      option_map (fun x => rmap (fun pf => (norm (fst pf), snd pf)) (observe pkg x)) o.

    (* the outcome of one query is a function of what the registries and the executor's lists hold
       when it starts (not of the counter, of the shared dict, of earlier found metadata) *)
    Lemma handle_focus_obs : forall (mt : mtab) (ns : nstab) (n m : nat) (sh sh' : extd) (b : backend)
        (jobs : list jblock) (inj : list spec) (d : extd) (fnd fnd' : list (string * string)) (mth : list string) dk q,
      obs_norm (Some (snd (hf {| f_mt := mt; f_ns := ns; f_counter := n; f_shared := sh;
                                 f_exe := {| e_backend := b; e_jobs := jobs; e_inject := inj; e_ext := Some d; e_found := fnd; e_methods := mth |} |} dk q)))
      = obs_norm (Some (snd (hf {| f_mt := mt; f_ns := ns; f_counter := m; f_shared := sh';
                                   f_exe := {| e_backend := b; e_jobs := jobs; e_inject := inj; e_ext := Some d; e_found := fnd'; e_methods := mth |} |} dk q))).
    Proof.
      intros. unfold obs_norm, option_map. f_equal.
      destruct dk as [[k p]|]; unfold_wrapper; cbn [fixed v_reset_on_failure v_reset_ns v_own_ext v_clear_found v_copy_methods f_exe e_ext f_mt f_ns f_counter f_shared e_backend e_jobs e_inject e_found e_methods];
        (destruct (extract q) as [[mds bd]|e0]; cbn; [|reflexivity]);
        (match goal with |- context [process_metadata ?a ?b ?c ?d ?e] => destruct (process_metadata a b c d e) as [[mt' ns'] [specs|e1]] end; cbn; [|reflexivity]);
        (destruct (passes bd) as [bd1|e2]; cbn; [|reflexivity]);
        (destruct (callbacks_ok b specs); cbn; [|reflexivity]);
        (match goal with |- context [finder ?a ?t ?c ?d] => destruct (finder a t c d) as [bd2|e3] end; cbn; [|reflexivity]);
        (match goal with |- context [T ?a n ?c ?d] =>
           pose proof (T_renames a n m c d) as HT;
           destruct (T a n c d) as [[p0|e4] n1]; destruct (T a m c d) as [[p1|e5] n2] end;
         cbn in *; try discriminate HT; inversion HT; subst; try reflexivity; congruence).
    Qed.

    Lemma sigma0_new : forall b dk q,
      outputF sigma0 (Handle New b dk q)
      = Some (snd (hf {| f_mt := defaults b; f_ns := []; f_counter := 0; f_shared := [];
                         f_exe := blank b |} dk q)).
    Proof.
      intros. unfold output, step, select, construct, focus_of, blank, defaults. cbn.
      match goal with |- context [handle_focus ?a ?b0 ?c ?d ?e ?f0 ?g ?h ?i ?f dk q] =>
        destruct (handle_focus a b0 c d e f0 g h i f dk q) as [f' o] end.
      reflexivity.
    Qed.

    (* the probe after any single-backend history = the probe as first query of a fresh process *)
    Theorem independent_one_backend : forall (b : backend) (h : list (op query)) (w : who) dk q,
      Forall (fun o => op_backend o = b) h ->
      obs_norm (outputF (runF h sigma0) (Handle w b dk q)) = obs_norm (outputF sigma0 (Handle New b dk q)).
    Proof.
      intros b h w dk q Hall.
      assert (Hinv : InvP (eq b) (runF h sigma0)).
      { apply run_inv; [apply InvP_sigma0|]. eapply Forall_impl; [|exact Hall]. intros o Ho. symmetry. exact Ho. }
      rewrite sigma0_new. set (s := runF h sigma0) in *.
      unfold output, step. destruct (select raw fixed w b s) as [s1 k] eqn:Hsel.
      destruct (select_inv (eq b) w b s s1 k Hinv eq_refl Hsel) as [(Hns & Hex & bs & Hbs & Hmt & Hne) Hk].
      set (e := nth k (g_execs s1) (blank b)).
      assert (He : clean_exec e /\ b = e_backend e).
      { unfold e. apply (Forall_nth (fun e => clean_exec e /\ b = e_backend e)); assumption. }
      assert (Hmt' : g_mt s1 = defaults b).
      { rewrite Hmt. apply trail_same; [exact Hbs|]. apply Hne. intros H. rewrite H in Hk. simpl in Hk. lia. }
      destruct (hf (focus_of s1 e) dk q) as [f out] eqn:Hhf. cbn [snd].
      replace out with (snd (hf (focus_of s1 e) dk q)) by (rewrite Hhf; reflexivity).
      unfold focus_of. rewrite Hmt', Hns.
      destruct e as [eb ej ei ee ef em]. destruct He as [(Hj & Hi & Hx & Hm) Hb]. simpl in Hj, Hi, Hx, Hm, Hb. subst.
      unfold blank. apply handle_focus_obs.
    Qed.
  End Observation.
End WrapperProofs.

(* ------------------------------------------------------------------------------------------ *)
(* concrete instance: the hypothesis on T is satisfiable, and witnesses                        *)
(* ------------------------------------------------------------------------------------------ *)
Lemma c_T_renames : forall b n m vw bd, rmap c_norm (fst (c_T b n vw bd)) = rmap c_norm (fst (c_T b m vw bd)).
Proof.
  intros. unfold c_T. destruct (cq_write_err bd); [reflexivity|].
  destruct (if backend_eqb b Atlas then gen (vw_jobs vw) else OK []); reflexivity.
Qed.

Definition c_obs (o : option (outcome cpkg)) := obs_norm cpkg c_norm o.

(* small stand-ins for the three default tables *)
Definition raw_w (b : backend) : list (mkey * string) :=
  match b with
  | Atlas => [(("xAOD::TruthParticle", "prodVtx"), "xAODTruth::TruthVertex*/0")]
  | CmsAod => [(("reco::Muon", "isPFMuon"), "bool/0")]
  | CmsMiniaod => [(("pat::Muon", "isPFMuon"), "bool/0")]
  end.

Definition q_ok (md : list decl) : cquery :=
  {| cq_extract_err := None; cq_md := md; cq_passes_err := None; cq_finder_err := None; cq_write_err := None |}.
Definition q_fail_write (md : list decl) : cquery :=
  {| cq_extract_err := None; cq_md := md; cq_passes_err := None; cq_finder_err := None; cq_write_err := Some ErrRuntime |}.

(* does the probe, after history [h], look the same as in a fresh process? *)
Definition independent_at (v : variant) (h : list (op cquery)) (w : who) (b : backend)
    (dk : option (string * string)) (q : cquery) : Prop :=
  c_obs (c_output raw_w v (c_run raw_w v h sigma0) (Handle w b dk q))
  = c_obs (c_output raw_w v sigma0 (Handle New b dk q)).

(* leak 1: a translation that fails never reaches reset(): the method type it declared stays *)
Definition h_failed : list (op cquery) :=
  [Handle New Atlas None (q_fail_write [DMethod "xAOD::Jet" "foo" "int/0"])].
(* leak 2: the enum/namespace registry is never cleared *)
Definition h_enum : list (op cquery) :=
  [Handle New Atlas None (q_ok [DEnum "xAOD.Jet" "Color" ["Red"; "Blue"]])].
(* leak 3: add_extended_md writes into the shared default-argument dict *)
Definition h_docker : list (op cquery) :=
  [Handle New CmsAod (Some ("docker", "image:1")) (q_ok [])].
Definition q_docker : cquery := q_ok [DExt "docker" (Some "other:2")].
(* leak 4: what an earlier query found stays in _found_extended_md of a reused executor *)
Definition h_found : list (op cquery) :=
  [Handle New Atlas (Some ("docker", "image:1")) (q_ok [DExt "docker" (Some "first:1")])].
(* still open after the fix: a reset re-adds only the resetting backend's default table *)
Definition h_cross : list (op cquery) := [Create CmsAod; Handle New Atlas None (q_ok [])].

Definition no_reset_on_failure : variant :=
  {| v_reset_on_failure := false; v_reset_ns := true; v_own_ext := true; v_clear_found := true; v_copy_methods := true |}.
Definition no_reset_ns : variant :=
  {| v_reset_on_failure := true; v_reset_ns := false; v_own_ext := true; v_clear_found := true; v_copy_methods := true |}.
Definition no_own_ext : variant :=
  {| v_reset_on_failure := true; v_reset_ns := true; v_own_ext := false; v_clear_found := true; v_copy_methods := true |}.
Definition no_clear_found : variant :=
  {| v_reset_on_failure := true; v_reset_ns := true; v_own_ext := true; v_clear_found := false; v_copy_methods := true |}.

(* seeded regression: the executor's method table is extended in place instead of a copy *)
Definition no_copy_methods : variant :=
  {| v_reset_on_failure := true; v_reset_ns := true; v_own_ext := true; v_clear_found := true; v_copy_methods := false |}.
Definition h_coll : list (op cquery) := [Handle New Atlas None (q_ok [DCollection Atlas "Jets"])].

Ltac refute := let H := fresh "H" in intro H; vm_compute in H; discriminate H.

Lemma unfixed_failed : ~ independent_at unfixed h_failed New Atlas None (q_ok []).
Proof. refute. Qed.
Lemma unfixed_enum : ~ independent_at unfixed h_enum New Atlas None (q_ok []).
Proof. refute. Qed.
Lemma unfixed_docker : ~ independent_at unfixed h_docker New Atlas None q_docker.
Proof. refute. Qed.
Lemma unfixed_found : ~ independent_at unfixed h_found (Reuse 0) Atlas (Some ("docker", "image:1")) (q_ok []).
Proof. refute. Qed.

(* each part of the fix is needed on its own *)
Lemma needed_reset_on_failure : ~ independent_at no_reset_on_failure h_failed New Atlas None (q_ok []).
Proof. refute. Qed.
Lemma needed_reset_ns : ~ independent_at no_reset_ns h_enum New Atlas None (q_ok []).
Proof. refute. Qed.
Lemma needed_own_ext : ~ independent_at no_own_ext h_docker New Atlas None q_docker.
Proof. refute. Qed.
Lemma needed_clear_found : ~ independent_at no_clear_found h_found (Reuse 0) Atlas (Some ("docker", "image:1")) (q_ok []).
Proof. refute. Qed.

Lemma needed_copy_methods : ~ independent_at no_copy_methods h_coll (Reuse 0) Atlas None (q_ok []).
Proof. refute. Qed.
Lemma fixed_ok_coll : independent_at fixed h_coll (Reuse 0) Atlas None (q_ok []).
Proof. vm_compute. reflexivity. Qed.

(* the full statement (any mixture of backends) is false of the fixed wrapper *)
Lemma fixed_cross_backend : ~ independent_at fixed h_cross (Reuse 0) CmsAod None (q_ok []).
Proof. refute. Qed.
Lemma fixed_cross_backend_new : ~ independent_at fixed h_cross New CmsAod None (q_ok []).
Proof. refute. Qed.

(* and the same histories are harmless for the fixed wrapper (by computation; the general
   statement is independent_one_backend) *)
Lemma fixed_ok_failed : independent_at fixed h_failed New Atlas None (q_ok []).
Proof. vm_compute. reflexivity. Qed.
Lemma fixed_ok_enum : independent_at fixed h_enum New Atlas None (q_ok []).
Proof. vm_compute. reflexivity. Qed.
Lemma fixed_ok_docker : independent_at fixed h_docker New Atlas None q_docker.
Proof. vm_compute. reflexivity. Qed.
Lemma fixed_ok_found : independent_at fixed h_found (Reuse 0) Atlas (Some ("docker", "image:1")) (q_ok []).
Proof. vm_compute. reflexivity. Qed.
