(* Soundness of the static analysis Cpp/EventLocal.v for the semantics Cpp/Exec.v:
   two runs of the same event from two member states that agree only on "vector members are empty"
   write the same rows / raise the same fault / get stuck the same way, and leave vector members empty.
   Relational (two-run) proof by the mutual induction principle sbs_mutind; then the lift to run_job. *)
From FV Require Import Base.Prelude Cpp.IR Cpp.Exec Cpp.EventLocal.
From Coq Require Import Permutation.

(* sbs_mutind (Scheme) gives no induction hypothesis for the else block of SIf (it sits under `option`,
   a nested occurrence).  The same principle with that hypothesis added, by structural recursion. *)
Section SbsIndElse.
Variables (P : stmt -> Prop) (P0 : block -> Prop) (P1 : stmts -> Prop).
Hypothesis HSet : forall x c e, P (SSet x c e).
Hypothesis HPush : forall x c e, P (SPush x c e).
Hypothesis HClear : forall x, P (SClear x).
Hypothesis HFill : forall l, P (SFill l).
Hypothesis HThrow : forall l, P (SThrow l).
Hypothesis HFetch : forall i t c b l, P (SFetch i t c b l).
Hypothesis HIota : forall v b, P (SIota v b).
Hypothesis HUser : forall l i t, P (SUser l i t).
Hypothesis HLine : forall l i, P (SLine l i).
Hypothesis HFor : forall x e b, P0 b -> P (SFor x e b).
Definition opt_else (els : option block) : Prop := match els with Some b2 => P0 b2 | None => True end.
Hypothesis HIf : forall c b, P0 b -> forall els, opt_else els -> P (SIf c b els).
Hypothesis HSBlk : forall b, P0 b -> P (SBlk b).
Hypothesis HBlk : forall ds body, P1 body -> P0 (Blk ds body).
Hypothesis HNil : P1 SNil.
Hypothesis HCons : forall s, P s -> forall r, P1 r -> P1 (SCons s r).

Fixpoint stmt_else_ind (s : stmt) : P s :=
  match s with
  | SSet x c e => HSet x c e
  | SPush x c e => HPush x c e
  | SClear x => HClear x
  | SFill l => HFill l
  | SThrow l => HThrow l
  | SFetch i t c b l => HFetch i t c b l
  | SIota v b => HIota v b
  | SUser l i t => HUser l i t
  | SLine l i => HLine l i
  | SFor x e b => HFor x e b (block_else_ind b)
  | SIf c b els =>
      HIf c b (block_else_ind b) els
          (match els as o return opt_else o with
           | Some b2 => block_else_ind b2
           | None => I
           end)
  | SBlk b => HSBlk b (block_else_ind b)
  end
with block_else_ind (b : block) : P0 b :=
  match b with Blk ds body => HBlk ds body (stmts_else_ind body) end
with stmts_else_ind (l : stmts) : P1 l :=
  match l with
  | SNil => HNil
  | SCons s r => HCons s (stmt_else_ind s) r (stmts_else_ind r)
  end.

Lemma sbs_mutind_else : (forall s, P s) /\ (forall b, P0 b) /\ (forall l, P1 l).
Proof. repeat split; [apply stmt_else_ind | apply block_else_ind | apply stmts_else_ind]. Qed.
End SbsIndElse.

(* ---------- the lattice and abstract states ---------- *)
Lemma mem_s_In : forall x l, mem_s x l = true <-> In x l.
Proof.
  intros x l. unfold mem_s. rewrite existsb_exists. split.
  - intros [y [H1 H2]]. apply String.eqb_eq in H2. subst. exact H1.
  - intros H. exists x. split; auto. apply String.eqb_refl.
Qed.

Lemma mem_s_false : forall x l, mem_s x l = false -> ~ In x l.
Proof. intros x l H C. apply mem_s_In in C. congruence. Qed.

Lemma incl_b_spec : forall g f, incl_b g f = true <-> (forall x, In x g -> In x f).
Proof.
  intros g f. unfold incl_b. rewrite forallb_forall. split; intros H x Hx.
  - apply mem_s_In. auto.
  - apply mem_s_In. auto.
Qed.

Lemma lle_refl : forall l, lle l l = true.
Proof. destruct l; simpl; auto. apply incl_b_spec. auto. Qed.
Lemma lle_trans : forall a b c, lle a b = true -> lle b c = true -> lle a c = true.
Proof.
  destruct a, b, c; simpl; intros H1 H2; try congruence; auto.
  rewrite incl_b_spec in *. auto.
Qed.
Lemma lle_any : forall l, lle l LAny = true. Proof. destruct l; reflexivity. Qed.
Lemma lmax_l : forall a b, lle a (lmax a b) = true.
Proof.
  destruct a, b; simpl; auto; apply incl_b_spec; auto.
  intros x Hx. apply filter_In in Hx. apply Hx.
Qed.
Lemma lmax_r : forall a b, lle b (lmax a b) = true.
Proof.
  destruct a, b; simpl; auto; apply incl_b_spec; auto.
  intros x Hx. apply filter_In in Hx. destruct Hx as [_ Hx]. apply mem_s_In. exact Hx.
Qed.

Definition ale_pt (a b : astate) : Prop := forall x, lle (aget x a) (aget x b) = true.

Lemma ale_spec : forall a b, ale a b = true -> ale_pt a b.
Proof.
  intros a b. induction b as [|[y l] r IH]; intros H x; simpl.
  - apply lle_any.
  - simpl in H. apply andb_true_iff in H. destruct H as [H1 H2].
    destruct (String.eqb x y) eqn:E.
    + apply String.eqb_eq in E. subst. exact H1.
    + apply IH. exact H2.
Qed.

Lemma ajoin_l : forall a b, ale_pt a (ajoin a b).
Proof.
  intros a b x. induction a as [|[y l] r IH]; simpl.
  - reflexivity.
  - destruct (String.eqb x y) eqn:E.
    + apply lmax_l.
    + exact IH.
Qed.

Lemma ajoin_r : forall a b, ale_pt b (ajoin a b).
Proof.
  intros a b x. induction a as [|[y l] r IH]; simpl.
  - apply lle_any.
  - destruct (String.eqb x y) eqn:E.
    + apply String.eqb_eq in E. subst. apply lmax_r.
    + exact IH.
Qed.

Lemma ale_pt_refl : forall a, ale_pt a a.
Proof. intros a x. apply lle_refl. Qed.
Lemma ale_pt_trans : forall a b c, ale_pt a b -> ale_pt b c -> ale_pt a c.
Proof. intros a b c H1 H2 x. eapply lle_trans; eauto. Qed.

Lemma aget_aset_other : forall x y l a, String.eqb x y = false -> aget y (aset x l a) = aget y a.
Proof.
  intros x y l a E. induction a as [|[z k] r IH]; simpl; auto.
  destruct (String.eqb x z) eqn:E2; simpl.
  - apply String.eqb_eq in E2. subst z.
    rewrite String.eqb_sym in E. rewrite E. exact IH.
  - destruct (String.eqb y z); auto.
Qed.

Lemma aget_aset_same : forall x l a, aget x (aset x l a) = l \/ aget x (aset x l a) = LAny.
Proof.
  intros x l a. induction a as [|[z k] r IH]; simpl; auto.
  destruct (String.eqb x z) eqn:E2; simpl; rewrite E2; auto.
Qed.

Lemma aget_amap : forall g y a, aget y (amap g a) = g (aget y a) \/ aget y (amap g a) = LAny.
Proof.
  intros g y a. induction a as [|[z k] r IH]; simpl; auto.
  destruct (String.eqb y z); auto.
Qed.

Lemma aget_abot : forall ns y, aget y (abot ns) = LClean \/ aget y (abot ns) = LAny.
Proof.
  intros ns y. unfold abot. induction ns as [|z r IH]; simpl; auto.
  destruct (String.eqb y z); auto.
Qed.

Lemma ai_loop_spec : forall body n sg sginv,
  ai_loop body n sg = Some sginv ->
  ale_pt sg sginv /\ exists sg', body sginv = Some sg' /\ ale sg' sginv = true.
Proof.
  intros body n. induction n as [|k IH]; intros sg sginv H; simpl in H.
  - destruct (body sg) as [sg'|] eqn:B; try discriminate.
    destruct (ale sg' sg) eqn:L; try discriminate.
    inversion H; subst. split. apply ale_pt_refl. eauto.
  - destruct (body sg) as [sg'|] eqn:B; try discriminate.
    destruct (ale sg' sg) eqn:L.
    + inversion H; subst. split. apply ale_pt_refl. eauto.
    + apply IH in H. destruct H as [H1 H2]. split; auto.
      eapply ale_pt_trans; [apply ajoin_l | exact H1].
Qed.

(* ---------- frames ---------- *)
Definition fsig (f : frame) : list (string * string) := map (fun b => (fst b, fst (snd b))) f.

Lemma frame_get_none : forall x (f : frame), ~ In x (map fst f) -> frame_get x f = None.
Proof.
  intros x f. induction f as [|[y tv] r IH]; simpl; intros H; auto.
  destruct (String.eqb x y) eqn:E.
  - apply String.eqb_eq in E. subst. exfalso. apply H. auto.
  - apply IH. intros C. apply H. auto.
Qed.

Lemma frame_get_some : forall x (f : frame), In x (map fst f) -> exists tv, frame_get x f = Some tv.
Proof.
  intros x f. induction f as [|[y tv] r IH]; simpl; intros H.
  - contradiction.
  - destruct (String.eqb x y) eqn:E; eauto.
    destruct H as [H|H]; auto. subst. rewrite String.eqb_refl in E. discriminate.
Qed.

Lemma frame_get_in_dom : forall x (f : frame) tv, frame_get x f = Some tv -> In x (map fst f).
Proof.
  intros x f. induction f as [|[y w] r IH]; simpl; intros tv H; try discriminate.
  destruct (String.eqb x y) eqn:E.
  - apply String.eqb_eq in E. auto.
  - right. eapply IH; eauto.
Qed.

Lemma frame_get_type : forall x (f1 f2 : frame), fsig f1 = fsig f2 ->
  option_map fst (frame_get x f1) = option_map fst (frame_get x f2).
Proof.
  intros x f1. induction f1 as [|[y [t v]] r IH]; intros [|[y2 [t2 v2]] r2] H; simpl in *; try discriminate; auto.
  inversion H; subst. destruct (String.eqb x y2); simpl; auto.
Qed.

Lemma fsig_dom : forall f, map fst (fsig f) = map fst f.
Proof. intros f. unfold fsig. rewrite map_map. reflexivity. Qed.

Lemma frame_set_spec : forall x v (f : frame),
  match frame_get x f with
  | None => frame_set x v f = None
  | Some (t, _) => exists f', frame_set x v f = Some f' /\ fsig f' = fsig f /\ map fst f' = map fst f /\
                   frame_get x f' = Some (t, v) /\
                   forall y, String.eqb y x = false -> frame_get y f' = frame_get y f
  end.
Proof.
  intros x v f. induction f as [|[y [t w]] r IH]; simpl; auto.
  destruct (String.eqb x y) eqn:E.
  - eexists. split; [reflexivity|]. simpl. rewrite E. repeat split; auto.
    intros z Hz. apply String.eqb_eq in E. subst y. rewrite Hz. reflexivity.
  - destruct (frame_get x r) as [[t' w']|] eqn:G.
    + destruct IH as [f' [H1 [H2 [H3 [H4 H5]]]]]. rewrite H1.
      eexists. split; [reflexivity|]. simpl. rewrite E, H2, H3, H4. repeat split; auto.
      intros z Hz. destruct (String.eqb z y); auto.
    + rewrite IH. reflexivity.
Qed.

Lemma frames_set_none : forall x v fs, frames_get x fs = None -> frames_set x v fs = None.
Proof.
  intros x v fs. induction fs as [|f r IH]; simpl; auto.
  intros H. destruct (frame_get x f) as [tv|] eqn:G; try discriminate.
  pose proof (frame_set_spec x v f) as S. rewrite G in S. rewrite S. rewrite IH; auto.
Qed.

Definition shape (fs : list frame) : list (list string) := map (map fst) fs.

(* a successful assignment to a local changes that local only, and no frame's names *)
Lemma frames_set_other : forall x v fs fs',
  frames_set x v fs = Some fs' ->
  shape fs' = shape fs /\ forall y, String.eqb y x = false -> frames_get y fs' = frames_get y fs.
Proof.
  intros x v fs. induction fs as [|f r IH]; simpl; intros fs' H; try discriminate.
  pose proof (frame_set_spec x v f) as S.
  destruct (frame_get x f) as [[t w]|] eqn:Gx.
  - destruct S as [f' [S1 [S2 [S3 [S4 S5]]]]]. rewrite S1 in H. inversion H; subst. simpl.
    split. { rewrite S3. reflexivity. }
    intros y E. rewrite (S5 y E). reflexivity.
  - rewrite S in H. destruct (frames_set x v r) as [r'|] eqn:R; try discriminate.
    inversion H; subst. simpl. destruct (IH r' eq_refl) as [I1 I2]. split. { rewrite I1. reflexivity. }
    intros y E. rewrite (I2 y E). reflexivity.
Qed.

Lemma frames_set_keeps_none : forall x v fs fs' y,
  frames_set x v fs = Some fs' -> frames_get y fs = None -> frames_get y fs' = None.
Proof.
  intros x v fs fs' y H G. destruct (frames_set_other _ _ _ _ H) as [_ O].
  destruct (String.eqb y x) eqn:E.
  - apply String.eqb_eq in E. subst. rewrite (frames_set_none x v fs G) in H. discriminate.
  - rewrite (O y E). exact G.
Qed.

Lemma frame_get_app_none : forall x (f g : frame),
  frame_get x f = None -> frame_get x g = None -> frame_get x (f ++ g) = None.
Proof.
  intros x f g. induction f as [|[y tv] r IH]; simpl; auto.
  destruct (String.eqb x y); auto.
Qed.

Lemma frame_get_app_other : forall y x tv (f : frame),
  String.eqb y x = false -> frame_get y (f ++ [(x, tv)]) = frame_get y f.
Proof.
  intros y x tv f E. induction f as [|[z w] r IH]; simpl.
  - rewrite E. reflexivity.
  - destruct (String.eqb y z); auto.
Qed.

Lemma frame_get_app_new : forall x tv (f : frame),
  frame_get x f = None -> frame_get x (f ++ [(x, tv)]) = Some tv.
Proof.
  intros x tv f. induction f as [|[z w] r IH]; simpl; intros H.
  - rewrite String.eqb_refl. reflexivity.
  - destruct (String.eqb x z); try discriminate. auto.
Qed.

(* ---------- the relation between the two runs ---------- *)
(* a block-local flag that currently holds a false value *)
Definition flag_false (fs : list frame) (f : string) : Prop :=
  exists t v, frames_get f fs = Some (t, v) /\ truth v = ROk false.

Definition vrel (l : lvl) (fs : list frame) (o1 o2 : option (string * value)) : Prop :=
  match l with
  | LClean => exists t, o1 = Some (t, VVec []) /\ o2 = Some (t, VVec [])
  | LSet => o1 = o2
  | LGuard F => (exists f, In f F /\ flag_false fs f) -> o1 = o2
  end.

Lemma vrel_any : forall fs o1 o2, vrel LAny fs o1 o2.
Proof. intros fs o1 o2 [f [[] _]]. Qed.

Lemma vrel_mono : forall l l' fs o1 o2, lle l l' = true -> vrel l fs o1 o2 -> vrel l' fs o1 o2.
Proof.
  intros l l' fs o1 o2 L V. destruct l, l'; simpl in *; try discriminate; auto.
  - destruct V as [t [A B]]. congruence.
  - destruct V as [t [A B]]. intros _. congruence.
  - rewrite incl_b_spec in L. intros [f [Hf Ff]]. apply V. exists f. auto.
Qed.

(* the frames change from fs to fs' in a way that keeps every flag outside xs *)
Lemma vrel_forget : forall xs l fs fs' o1 o2,
  (forall f, ~ In f xs -> flag_false fs' f -> flag_false fs f) ->
  vrel l fs o1 o2 -> vrel (lforget_all xs l) fs' o1 o2.
Proof.
  intros xs l fs fs' o1 o2 K V. destruct l; simpl in *; auto.
  intros [f [Hf Ff]]. apply filter_In in Hf. destruct Hf as [Hf1 Hf2].
  apply negb_true_iff in Hf2. apply mem_s_false in Hf2.
  apply V. exists f. split; auto.
Qed.

Lemma vrel_guard : forall x l fs o1 o2,
  ~ flag_false fs x -> vrel l fs o1 o2 -> vrel (lguard x l) fs o1 o2.
Proof.
  intros x l fs o1 o2 N V. destruct l; simpl in *; auto.
  intros [f [[Hf|Hf] Ff]].
  - subst. contradiction.
  - apply V. exists f. auto.
Qed.

Lemma vrel_false : forall x l fs o1 o2,
  flag_false fs x -> vrel l fs o1 o2 -> vrel (lfalse x l) fs o1 o2.
Proof.
  intros x l fs o1 o2 F V. destruct l; simpl in *; auto.
  destruct (mem_s x flags) eqn:M; simpl; auto.
  apply V. exists x. split; auto. apply mem_s_In. exact M.
Qed.

Definition res_rel {A} (R : A -> A -> Prop) (r1 r2 : res A) : Prop :=
  match r1, r2 with
  | ROk a, ROk b => R a b
  | RFault f, RFault g => f = g
  | RStuck k, RStuck k' => k = k'
  | _, _ => False
  end.

Lemma res_rel_bind : forall {A B} (R : A -> A -> Prop) (R' : B -> B -> Prop) r1 r2 (f g : A -> res B),
  res_rel R r1 r2 -> (forall a b, R a b -> res_rel R' (f a) (g b)) -> res_rel R' (rbind r1 f) (rbind r2 g).
Proof.
  intros A B R R' r1 r2 f g H K. destruct r1, r2; simpl in *; auto; contradiction.
Qed.

Lemma res_rel_mono : forall {A} (R R' : A -> A -> Prop) (r1 r2 : res A),
  res_rel R r1 r2 -> (forall a b, R a b -> R' a b) -> res_rel R' r1 r2.
Proof. intros A R R' r1 r2 H K. destruct r1, r2; simpl in *; auto. Qed.

Section Sound.
Variable ns : list string.
Variable msig : list (string * string).   (* declared (name, type) of the members *)
Variable brs : list branch.
Variable ev : event.

Definition fresh (fs : list frame) : Prop := forall x, is_mem ns x = true -> frames_get x fs = None.

Record Rst (sg : astate) (st1 st2 : state) : Prop := {
  R_frames : frames st1 = frames st2;
  R_rows : rows st1 = rows st2;
  R_fresh : fresh (frames st1);
  R_sig : fsig (members st1) = fsig (members st2);
  R_msig : fsig (members st1) = msig;
  R_dom : map fst (members st1) = ns;
  R_mem : forall x, vrel (aget x sg) (frames st1) (frame_get x (members st1)) (frame_get x (members st2))
}.

Lemma is_mem_true : forall x, is_mem ns x = true <-> In x ns.
Proof. intros x. apply mem_s_In. Qed.

Lemma is_mem_false : forall x, is_mem ns x = false -> ~ In x ns.
Proof. intros x H C. apply is_mem_true in C. congruence. Qed.

Lemma Rst_dom2 : forall sg st1 st2, Rst sg st1 st2 -> map fst (members st2) = ns.
Proof.
  intros sg st1 st2 H. rewrite <- (R_dom _ _ _ H). rewrite <- !fsig_dom. rewrite (R_sig _ _ _ H). reflexivity.
Qed.

Lemma Rst_weaken : forall sg sg' st1 st2, ale_pt sg sg' -> Rst sg st1 st2 -> Rst sg' st1 st2.
Proof.
  intros sg sg' st1 st2 L H. destruct H. constructor; auto.
  intros x. eapply vrel_mono; [apply L | apply R_mem0].
Qed.

(* change of the abstract state by a level-wise function, and of the frames *)
Lemma Rst_amap : forall g sg st1 st2 st1' st2',
  Rst sg st1 st2 ->
  frames st1' = frames st2' -> rows st1' = rows st2' -> fresh (frames st1') ->
  members st1' = members st1 -> members st2' = members st2 ->
  (forall l o1 o2, vrel l (frames st1) o1 o2 -> vrel (g l) (frames st1') o1 o2) ->
  Rst (amap g sg) st1' st2'.
Proof.
  intros g sg st1 st2 st1' st2' H F R Fr M1 M2 K. destruct H.
  constructor; auto; try (rewrite M1; auto; fail); try (rewrite M1, M2; auto; fail).
  intros x. rewrite M1, M2. destruct (aget_amap g x sg) as [E|E]; rewrite E.
  - apply K. apply R_mem0.
  - apply vrel_any.
Qed.

Lemma lookup_nonmember : forall sg st1 st2 x, Rst sg st1 st2 -> is_mem ns x = false ->
  lookup x st1 = lookup x st2.
Proof.
  intros sg st1 st2 x H M. unfold lookup. rewrite (R_frames _ _ _ H).
  destruct (frames_get x (frames st2)); auto.
  apply is_mem_false in M.
  rewrite !frame_get_none; auto.
  - rewrite (Rst_dom2 _ _ _ H). exact M.
  - rewrite (R_dom _ _ _ H). exact M.
Qed.

Lemma lookup_nonmember_frames : forall sg st1 st2 x, Rst sg st1 st2 -> is_mem ns x = false ->
  lookup x st1 = frames_get x (frames st1).
Proof.
  intros sg st1 st2 x H M. unfold lookup.
  destruct (frames_get x (frames st1)); auto.
  apply is_mem_false in M. apply frame_get_none. rewrite (R_dom _ _ _ H). exact M.
Qed.

Lemma lookup_member : forall sg st1 st2 x, Rst sg st1 st2 -> is_mem ns x = true ->
  lookup x st1 = frame_get x (members st1) /\ lookup x st2 = frame_get x (members st2).
Proof.
  intros sg st1 st2 x H M. unfold lookup. rewrite <- (R_frames _ _ _ H).
  rewrite (R_fresh _ _ _ H x M). auto.
Qed.

Lemma lookup_eq : forall sg st1 st2 x, Rst sg st1 st2 ->
  (is_mem ns x = false \/ lle (aget x sg) LSet = true) -> lookup x st1 = lookup x st2.
Proof.
  intros sg st1 st2 x H [M|L].
  - eapply lookup_nonmember; eauto.
  - destruct (is_mem ns x) eqn:M.
    + destruct (lookup_member _ _ _ x H M) as [A B]. rewrite A, B.
      pose proof (R_mem _ _ _ H x) as V. eapply vrel_mono in V; [|exact L]. exact V.
    + eapply lookup_nonmember; eauto.
Qed.

Lemma lookup_type : forall sg st1 st2 x, Rst sg st1 st2 ->
  option_map fst (lookup x st1) = option_map fst (lookup x st2).
Proof.
  intros sg st1 st2 x H. destruct (is_mem ns x) eqn:M.
  - destruct (lookup_member _ _ _ x H M) as [A B]. rewrite A, B.
    apply frame_get_type. apply (R_sig _ _ _ H).
  - erewrite lookup_nonmember; eauto.
Qed.

(* expressions that mention no member evaluate identically *)
Lemma ids_ok_app : forall a b, ids_ok ns (a ++ b) = true -> ids_ok ns a = true /\ ids_ok ns b = true.
Proof. intros a b H. unfold ids_ok in *. rewrite forallb_app in H. apply andb_true_iff in H. exact H. Qed.

Lemma eval_same : forall sg st1 st2, Rst sg st1 st2 ->
  (forall e, exp_ok ns e = true -> eval ev st1 e = eval ev st2 e) /\
  (forall l, ids_ok ns (args_vars l) = true -> eval_args ev st1 l = eval_args ev st2 l).
Proof.
  intros sg st1 st2 H. unfold exp_ok.
  apply cexp_mutind; simpl; intros;
    repeat match goal with
           | K : ids_ok ns (_ ++ _) = true |- _ => apply ids_ok_app in K; destruct K
           end;
    repeat match goal with
           | IH : ids_ok ns ?v = true -> _, K : ids_ok ns ?v = true |- _ => specialize (IH K); rewrite IH; clear IH
           end; auto.
  - (* CVar *)
    unfold ids_ok in H0. simpl in H0. apply andb_true_iff in H0. destruct H0 as [H0 _].
    apply negb_true_iff in H0. rewrite (lookup_nonmember _ _ _ x H H0). reflexivity.
Qed.

Lemma eval_eq : forall sg st1 st2 e, Rst sg st1 st2 -> exp_ok ns e = true -> eval ev st1 e = eval ev st2 e.
Proof. intros sg st1 st2 e H. apply (proj1 (eval_same _ _ _ H)). Qed.

(* assignment *)
Lemma assign_nonmember : forall sg st1 st2 x v, Rst sg st1 st2 -> is_mem ns x = false ->
  match assign x v st1, assign x v st2 with
  | Some a, Some b => Rst (aforget x sg) a b /\ shape (frames a) = shape (frames st1)
  | None, None => True
  | _, _ => False
  end.
Proof.
  intros sg st1 st2 x v H M. unfold assign. rewrite <- (R_frames _ _ _ H).
  destruct (frames_set x v (frames st1)) as [fs|] eqn:F.
  - destruct (frames_set_other _ _ _ _ F) as [Sh O]. split; auto.
    eapply Rst_amap; eauto; simpl; auto.
    + apply (R_rows _ _ _ H).
    + intros y My. eapply frames_set_keeps_none; eauto. apply (R_fresh _ _ _ H y My).
    + intros l o1 o2. apply vrel_forget. intros f Nf [t [w [G T]]].
      exists t, w. split; auto. rewrite <- G. symmetry. apply O.
      destruct (String.eqb f x) eqn:E; auto. apply String.eqb_eq in E. subst. exfalso. apply Nf. simpl. auto.
  - apply is_mem_false in M.
    pose proof (frame_set_spec x v (members st1)) as S1.
    pose proof (frame_set_spec x v (members st2)) as S2.
    rewrite frame_get_none in S1 by (rewrite (R_dom _ _ _ H); exact M).
    rewrite frame_get_none in S2 by (rewrite (Rst_dom2 _ _ _ H); exact M).
    rewrite S1, S2. exact I.
Qed.

Lemma assign_member : forall sg st1 st2 x v l, Rst sg st1 st2 -> is_mem ns x = true ->
  (forall t fs, vrel l fs (Some (t, v)) (Some (t, v))) ->
  exists a b, assign x v st1 = Some a /\ assign x v st2 = Some b /\ Rst (aset x l sg) a b /\
              frames a = frames st1.
Proof.
  intros sg st1 st2 x v l H M V. unfold assign. rewrite <- (R_frames _ _ _ H).
  rewrite (frames_set_none x v _ (R_fresh _ _ _ H x M)).
  pose proof (frame_set_spec x v (members st1)) as S1.
  pose proof (frame_set_spec x v (members st2)) as S2.
  pose proof (frame_get_type x _ _ (R_sig _ _ _ H)) as T.
  apply is_mem_true in M.
  destruct (frame_get_some x (members st1)) as [[t1 w1] G1]. { rewrite (R_dom _ _ _ H). exact M. }
  destruct (frame_get_some x (members st2)) as [[t2 w2] G2]. { rewrite (Rst_dom2 _ _ _ H). exact M. }
  rewrite G1 in S1, T. rewrite G2 in S2, T. simpl in T. inversion T; subst t2.
  destruct S1 as [m1 [A1 [A2 [A3 [A4 A5]]]]]. destruct S2 as [m2 [B1 [B2 [B3 [B4 B5]]]]].
  rewrite A1, B1. do 2 eexists. split; [reflexivity|]. split; [reflexivity|]. split; [|reflexivity].
  destruct H. constructor; simpl; auto.
  - congruence.
  - congruence.
  - congruence.
  - intros y. destruct (String.eqb y x) eqn:E.
    + apply String.eqb_eq in E. subst y. rewrite A4, B4.
      destruct (aget_aset_same x l sg) as [K|K]; rewrite K; [apply V | apply vrel_any].
    + rewrite (A5 y E), (B5 y E). rewrite aget_aset_other; auto. rewrite String.eqb_sym. exact E.
Qed.

(* assignment to a name the analysis treats with `awrite` *)
Lemma assign_write : forall sg st1 st2 x v, Rst sg st1 st2 ->
  match assign x v st1, assign x v st2 with
  | Some a, Some b => Rst (awrite ns x sg) a b /\ shape (frames a) = shape (frames st1)
  | None, None => True
  | _, _ => False
  end.
Proof.
  intros sg st1 st2 x v H. unfold awrite. destruct (is_mem ns x) eqn:M.
  - destruct (assign_member sg st1 st2 x v LSet H M) as [a [b [A [B [C D]]]]]. { intros; reflexivity. }
    rewrite A, B. split; auto. rewrite D. reflexivity.
  - apply assign_nonmember; auto.
Qed.

(* declarations *)
Definition top_names (st : state) : list string := map fst (hd [] (frames st)).

Lemma declare_frames : forall st x t v,
  frames st <> [] ->
  frames (declare x t v st) = (hd [] (frames st) ++ [(x, (t, v))]) :: tl (frames st).
Proof. intros st x t v N. unfold declare. destruct (frames st); simpl; congruence. Qed.

Lemma declare_rel : forall sg st1 st2 x t v (flag : bool), Rst sg st1 st2 -> is_mem ns x = false ->
  frames st1 <> [] ->
  (flag = true -> ~ In x (top_names st1) /\ truth v = ROk true) ->
  Rst (if flag then amap (lguard x) (aforget x sg) else aforget x sg)
      (declare x t v st1) (declare x t v st2).
Proof.
  intros sg st1 st2 x t v flag H M N FL.
  assert (N2 : frames st2 <> []). { rewrite <- (R_frames _ _ _ H). exact N. }
  assert (Base : Rst (aforget x sg) (declare x t v st1) (declare x t v st2)).
  { eapply Rst_amap; eauto.
    - rewrite !declare_frames; auto. rewrite (R_frames _ _ _ H). reflexivity.
    - unfold declare. destruct (frames st1), (frames st2); simpl; apply (R_rows _ _ _ H).
    - rewrite declare_frames; auto. intros y My. pose proof (R_fresh _ _ _ H y My) as F.
      destruct (frames st1) as [|f r]; try congruence. simpl in *.
      destruct (frame_get y f) eqn:G; try discriminate.
      rewrite frame_get_app_none; auto.
      simpl. destruct (String.eqb y x) eqn:E2; auto.
      apply String.eqb_eq in E2. subst. congruence.
    - unfold declare. destruct (frames st1); reflexivity.
    - unfold declare. destruct (frames st2); reflexivity.
    - intros l o1 o2. apply vrel_forget. intros f Nf [t0 [w [G T]]].
      exists t0, w. split; auto. rewrite declare_frames in G; auto.
      destruct (frames st1) as [|f0 r]; try congruence. simpl in *.
      rewrite frame_get_app_other in G; auto.
      destruct (String.eqb f x) eqn:E; auto. apply String.eqb_eq in E. subst. exfalso. apply Nf. simpl. auto. }
  destruct flag; auto.
  destruct (FL eq_refl) as [Nx Tv].
  eapply Rst_amap; eauto; try apply Base.
  intros l o1 o2. apply vrel_guard. intros [t0 [w [G T]]].
  rewrite declare_frames in G; auto. unfold top_names in Nx.
  destruct (frames st1) as [|f0 r]; try congruence. simpl in *.
  rewrite frame_get_app_new in G by (apply frame_get_none; exact Nx).
  inversion G; subst. congruence.
Qed.

Lemma truth_true_flag : truth (init_value "bool" (VBool true)) = ROk true.
Proof. reflexivity. Qed.

Lemma run_decls_rel : forall ds seen sg sg' st1 st2,
  ai_decls ns ds seen sg = Some sg' -> Rst sg st1 st2 -> frames st1 <> [] ->
  (forall y, In y (top_names st1) -> In y seen) ->
  res_rel (fun a b => Rst sg' a b /\
                      shape (frames a) = (top_names st1 ++ map d_name ds) :: tl (shape (frames st1)))
          (run_decls ev ds st1) (run_decls ev ds st2).
Proof.
  induction ds as [|d r IH]; intros seen sg sg' st1 st2 A H N S; simpl in *.
  - inversion A; subst. split; auto. rewrite app_nil_r. unfold top_names, shape.
    destruct (frames st1); simpl; congruence.
  - destruct (decl_ok ns d) eqn:D; try discriminate.
    unfold decl_ok in D. apply andb_true_iff in D. destruct D as [D0 D1]. apply negb_true_iff in D0.
    assert (Step : forall v, (is_true_flag d = true -> v = init_value "bool" (VBool true)) ->
              res_rel (fun a b => Rst sg' a b /\
                         shape (frames a) = (top_names st1 ++ d_name d :: map d_name r) :: tl (shape (frames st1)))
                      (run_decls ev r (declare (d_name d) (d_type d) v st1))
                      (run_decls ev r (declare (d_name d) (d_type d) v st2))).
    { intros v Hv.
      assert (N' : frames (declare (d_name d) (d_type d) v st1) <> []).
      { rewrite declare_frames; auto. discriminate. }
      assert (TN : top_names (declare (d_name d) (d_type d) v st1) = top_names st1 ++ [d_name d]).
      { unfold top_names. rewrite declare_frames; auto. simpl. rewrite map_app. reflexivity. }
      assert (SH : tl (shape (frames (declare (d_name d) (d_type d) v st1))) = tl (shape (frames st1))).
      { rewrite declare_frames; auto. unfold shape. destruct (frames st1); simpl; congruence. }
      eapply res_rel_mono.
      - eapply IH with (seen := d_name d :: seen); eauto.
        + eapply (declare_rel sg st1 st2 (d_name d) (d_type d) v
                              (is_true_flag d && negb (mem_s (d_name d) seen))); eauto.
          intros FL. apply andb_true_iff in FL. destruct FL as [F1 F2]. apply negb_true_iff in F2.
          split.
          * intros C. apply S in C. apply mem_s_false in F2. contradiction.
          * rewrite (Hv F1). reflexivity.
        + intros y Hy. rewrite TN in Hy. apply in_app_or in Hy. destruct Hy as [Hy|[Hy|[]]]; simpl; auto.
      - intros a b [K1 K2]. split; auto. rewrite K2, TN, SH, <- app_assoc. reflexivity. }
    destruct (d_init d) as [e|] eqn:DI.
    + rewrite (eval_eq _ _ _ e H D1).
      destruct (eval ev st2 e) as [v| |] eqn:EV; simpl; auto.
      apply Step. intros TF. unfold is_true_flag in TF. rewrite DI in TF.
      apply andb_true_iff in TF. destruct TF as [T1 T2]. apply String.eqb_eq in T1. rewrite T1.
      destruct e; try discriminate. destruct b; try discriminate.
      simpl in EV. inversion EV. reflexivity.
    + apply Step. intros TF. unfold is_true_flag in TF. rewrite DI in TF.
      rewrite andb_false_r in TF. discriminate.
Qed.

Lemma fill_row_eq : forall sg st1 st2, Rst sg st1 st2 -> fill_ok ns brs sg = true ->
  fill_row brs st1 = fill_row brs st2.
Proof.
  intros sg st1 st2 H F. unfold fill_row. apply map_ext_in. intros b Hb.
  unfold fill_ok in F. rewrite forallb_forall in F. specialize (F b Hb).
  apply orb_true_iff in F. destruct F as [F|F].
  - apply negb_true_iff in F. apply is_mem_false in F.
    rewrite !frame_get_none; auto.
    + rewrite (Rst_dom2 _ _ _ H). exact F.
    + rewrite (R_dom _ _ _ H). exact F.
  - pose proof (R_mem _ _ _ H (br_var b)) as V. eapply vrel_mono in V; [|exact F].
    simpl in V. rewrite V. reflexivity.
Qed.

Lemma push_frame_rel : forall sg st1 st2 (pre : frame), Rst sg st1 st2 ->
  (forall x, is_mem ns x = true -> frame_get x pre = None) ->
  Rst (aforget_all (map fst pre) sg)
      {| frames := pre :: frames st1; members := members st1; rows := rows st1 |}
      {| frames := pre :: frames st2; members := members st2; rows := rows st2 |}.
Proof.
  intros sg st1 st2 pre H P. eapply Rst_amap; eauto; simpl; auto.
  - rewrite (R_frames _ _ _ H). reflexivity.
  - apply (R_rows _ _ _ H).
  - intros x M. simpl. rewrite (P x M). apply (R_fresh _ _ _ H). exact M.
  - intros l o1 o2. apply vrel_forget. intros f Nf [t [w [G T]]].
    exists t, w. split; auto. simpl in G. rewrite frame_get_none in G; auto.
Qed.

Lemma pop_frame_rel : forall sg st1 st2 xs, Rst sg st1 st2 ->
  (forall y, In y (top_names st1) -> In y xs) ->
  Rst (aforget_all xs sg) (pop_frame st1) (pop_frame st2).
Proof.
  intros sg st1 st2 xs H S. eapply Rst_amap; eauto; simpl; auto.
  - rewrite (R_frames _ _ _ H). reflexivity.
  - apply (R_rows _ _ _ H).
  - intros x M. pose proof (R_fresh _ _ _ H x M) as F. destruct (frames st1) as [|f r]; simpl in *; auto.
    destruct (frame_get x f); try discriminate. exact F.
  - intros l o1 o2. apply vrel_forget. intros f Nf [t [w [G T]]].
    exists t, w. split; auto. unfold top_names in S.
    destruct (frames st1) as [|f0 r]; simpl in *; auto.
    rewrite frame_get_none; auto.
Qed.

(* a false condition that is a plain local: the guards on it fire *)
Lemma cond_false_rel : forall sg st1 st2 c v, Rst sg st1 st2 -> exp_ok ns c = true ->
  eval ev st1 c = ROk v -> truth v = ROk false -> Rst (cond_false c sg) st1 st2.
Proof.
  intros sg st1 st2 c v H E EV T. destruct c; simpl; auto.
  eapply Rst_amap; eauto; try apply H.
  intros l o1 o2. apply vrel_false.
  unfold exp_ok, ids_ok in E. simpl in E. apply andb_true_iff in E. destruct E as [E _].
  apply negb_true_iff in E. simpl in EV.
  rewrite (lookup_nonmember_frames _ _ _ x H E) in EV.
  destruct (frames_get x (frames st1)) as [[t w]|] eqn:G; try discriminate.
  exists t, w. split; auto. destruct w; try discriminate; inversion EV; subst; exact T.
Qed.

Ltac same_or_trivial :=
  simpl; auto;
  match goal with
  | |- res_rel _ (RStuck ?k) (RStuck ?k) => reflexivity
  | |- res_rel _ (RFault ?k) (RFault ?k) => reflexivity
  | _ => idtac
  end.

Lemma ai_stmt_for : forall x e b sg,
  ai_stmt ns brs (SFor x e b) sg =
  if negb (is_mem ns x) && exp_ok ns e then ai_loop (ai_block ns brs b [x]) loop_fuel sg else None.
Proof. reflexivity. Qed.

Lemma ai_stmt_if : forall c b els sg,
  ai_stmt ns brs (SIf c b els) sg =
  if exp_ok ns c then
    match ai_block ns brs b [] sg,
          (match els with Some b2 => ai_block ns brs b2 [] (cond_false c sg) | None => Some (cond_false c sg) end) with
    | Some s1, Some s2 => Some (ajoin s1 s2)
    | _, _ => None
    end
  else None.
Proof. reflexivity. Qed.

Lemma exec_stmt_if : forall c b els st,
  exec_stmt brs ev (SIf c b els) st =
  rbind (eval ev st c) (fun v => rbind (truth v) (fun t =>
    if t then exec_block brs ev b [] st
    else match els with Some b2 => exec_block brs ev b2 [] st | None => ROk st end)).
Proof. reflexivity. Qed.

Lemma ai_stmts_cons : forall s r sg,
  ai_stmts ns brs (SCons s r) sg = match ai_stmt ns brs s sg with Some sg' => ai_stmts ns brs r sg' | None => None end.
Proof. reflexivity. Qed.
Lemma exec_stmts_cons : forall s r st,
  exec_stmts brs ev (SCons s r) st = rbind (exec_stmt brs ev s st) (fun st' => exec_stmts brs ev r st').
Proof. reflexivity. Qed.
Lemma ai_block_blk : forall ds body pre sg,
  ai_block ns brs (Blk ds body) pre sg =
  match ai_decls ns ds pre (aforget_all pre sg) with
  | Some sg1 => match ai_stmts ns brs body sg1 with
                | Some sg2 => Some (aforget_all (pre ++ map d_name ds) sg2)
                | None => None
                end
  | None => None
  end.
Proof. reflexivity. Qed.
Lemma exec_block_blk : forall ds body pre st,
  exec_block brs ev (Blk ds body) pre st =
  rbind (run_decls ev ds {| frames := pre :: frames st; members := members st; rows := rows st |})
        (fun st1 => rbind (exec_stmts brs ev body st1) (fun st2 => ROk (pop_frame st2))).
Proof. reflexivity. Qed.

(* the relation carried through statements: the abstract state describes the two member states, and the
   names bound in each frame are those at the start (needed to know what goes out of scope at block exit) *)
Definition Rsh (sg : astate) (st0 : state) (a b : state) : Prop :=
  Rst sg a b /\ shape (frames a) = shape (frames st0).

Lemma Rsh_of_assign : forall sg st1 (oa ob : option state) (k : stuck),
  match oa, ob with
  | Some a, Some b => Rst sg a b /\ shape (frames a) = shape (frames st1)
  | None, None => True
  | _, _ => False
  end ->
  res_rel (Rsh sg st1)
          (match oa with Some st' => ROk st' | None => RStuck k end)
          (match ob with Some st' => ROk st' | None => RStuck k end).
Proof. intros sg st1 oa ob k H. destruct oa, ob; simpl; auto; contradiction. Qed.

(* ---------- the main lemma: statements, blocks, statement lists ---------- *)
Lemma exec_sound :
  (forall s sg sg' st1 st2, ai_stmt ns brs s sg = Some sg' -> Rst sg st1 st2 ->
      res_rel (Rsh sg' st1) (exec_stmt brs ev s st1) (exec_stmt brs ev s st2)) /\
  (forall b sg sg' (pre : frame) st1 st2, ai_block ns brs b (map fst pre) sg = Some sg' -> Rst sg st1 st2 ->
      (forall x, is_mem ns x = true -> frame_get x pre = None) ->
      res_rel (Rsh sg' st1) (exec_block brs ev b pre st1) (exec_block brs ev b pre st2)) /\
  (forall l sg sg' st1 st2, ai_stmts ns brs l sg = Some sg' -> Rst sg st1 st2 ->
      res_rel (Rsh sg' st1) (exec_stmts brs ev l st1) (exec_stmts brs ev l st2)).
Proof.
  apply sbs_mutind_else.
  - (* SSet *)
    intros x cast e sg sg' st1 st2 A H. cbn in A.
    destruct (exp_ok ns e) eqn:E; try discriminate. inversion A; subst; clear A.
    cbn. rewrite (eval_eq _ _ _ e H E).
    destruct (eval ev st2 e) as [v| |]; same_or_trivial.
    pose proof (lookup_type _ _ _ x H) as T.
    destruct (lookup x st1) as [[t1 w1]|], (lookup x st2) as [[t2 w2]|]; simpl in T; try discriminate; same_or_trivial.
    inversion T; subst t2.
    apply Rsh_of_assign. apply assign_write. exact H.
  - (* SPush *)
    intros x cast e sg sg' st1 st2 A H. cbn in A.
    destruct (exp_ok ns e) eqn:E; try discriminate.
    cbn. rewrite (eval_eq _ _ _ e H E).
    destruct (eval ev st2 e) as [v| |]; same_or_trivial.
    destruct (is_mem ns x) eqn:M.
    + destruct (lle (aget x sg) LSet) eqn:L; try discriminate. inversion A; subst; clear A.
      rewrite (lookup_eq _ _ _ x H (or_intror L)).
      destruct (lookup x st2) as [[t w]|]; same_or_trivial.
      destruct w; same_or_trivial.
      match goal with |- context [assign x ?v st1] =>
        destruct (assign_member sg st1 st2 x v LSet H M) as [a [b [A1 [A2 [A3 A4]]]]] end.
      { intros; reflexivity. }
      rewrite A1, A2. split; auto. rewrite A4. reflexivity.
    + inversion A; subst; clear A.
      rewrite (lookup_eq _ _ _ x H (or_introl M)).
      destruct (lookup x st2) as [[t w]|]; same_or_trivial.
      destruct w; same_or_trivial.
      apply Rsh_of_assign. apply assign_nonmember; auto.
  - (* SClear *)
    intros x sg sg' st1 st2 A H. cbn in A. cbn.
    destruct (is_mem ns x) eqn:M.
    + destruct (lle (aget x sg) LSet) eqn:L; try discriminate. inversion A; subst; clear A.
      rewrite (lookup_eq _ _ _ x H (or_intror L)).
      destruct (lookup x st2) as [[t w]|]; same_or_trivial.
      destruct w; same_or_trivial.
      destruct (assign_member sg st1 st2 x (VVec []) LClean H M) as [a [b [A1 [A2 [A3 A4]]]]].
      { intros t0 fs. simpl. eauto. }
      rewrite A1, A2. split; auto. rewrite A4. reflexivity.
    + inversion A; subst; clear A.
      rewrite (lookup_eq _ _ _ x H (or_introl M)).
      destruct (lookup x st2) as [[t w]|]; same_or_trivial.
      destruct w; same_or_trivial.
      apply Rsh_of_assign. apply assign_nonmember; auto.
  - (* SFill *)
    intros line sg sg' st1 st2 A H. cbn in A.
    destruct (fill_ok ns brs sg) eqn:F; try discriminate. inversion A; subst; clear A.
    cbn. rewrite (fill_row_eq _ _ _ H F). split; auto. destruct H. constructor; simpl; auto. congruence.
  - (* SThrow *)
    intros line sg sg' st1 st2 A H. cbn. reflexivity.
  - (* SFetch *)
    intros idiom target ct bank lines sg sg' st1 st2 A H. cbn in A. inversion A; subst; clear A.
    cbn. destruct (assoc_ss (ct, bank) (ev_colls ev)) as [v|]; same_or_trivial.
    apply Rsh_of_assign. apply assign_write. exact H.
  - (* SIota *)
    intros v b sg sg' st1 st2 A H. cbn in A.
    destruct (negb (is_mem ns v) && negb (is_mem ns b)) eqn:C; try discriminate.
    inversion A; subst; clear A.
    apply andb_true_iff in C. destruct C as [C1 C2]. apply negb_true_iff in C1. apply negb_true_iff in C2.
    cbn. rewrite (lookup_nonmember _ _ _ v H C1), (lookup_nonmember _ _ _ b H C2).
    destruct (lookup v st2) as [[t w]|]; same_or_trivial.
    destruct w; destruct (lookup b st2) as [[t' w']|]; same_or_trivial; destruct w'; same_or_trivial.
    apply Rsh_of_assign. apply assign_nonmember; auto.
  - (* SUser *)
    intros; simpl; reflexivity.
  - (* SLine *)
    intros; simpl; reflexivity.
  - (* SFor *)
    intros x e b IHb sg sg' st1 st2 A H. rewrite ai_stmt_for in A.
    destruct (negb (is_mem ns x) && exp_ok ns e) eqn:C; try discriminate.
    apply andb_true_iff in C. destruct C as [C1 C2]. apply negb_true_iff in C1.
    apply ai_loop_spec in A. destruct A as [L [sg2 [B1 B2]]].
    cbn. rewrite (eval_eq _ _ _ e H C2).
    destruct (eval ev st2 e) as [c| |]; same_or_trivial.
    destruct c; same_or_trivial.
    apply (Rst_weaken _ _ _ _ L) in H.
    assert (G : forall l0 a1 a2, Rsh sg' st1 a1 a2 ->
      res_rel (Rsh sg' st1)
        ((fix loop (l : list value) (st : state) {struct l} : res state :=
            match l with
            | [] => ROk st
            | v :: r => rdo st' <- exec_block brs ev b [(x, ("auto", v))] st; loop r st'
            end) l0 a1)
        ((fix loop (l : list value) (st : state) {struct l} : res state :=
            match l with
            | [] => ROk st
            | v :: r => rdo st' <- exec_block brs ev b [(x, ("auto", v))] st; loop r st'
            end) l0 a2)).
    { induction l0 as [|v r IHl]; intros a1 a2 [K1 K2].
      - split; auto.
      - eapply res_rel_bind.
        + eapply (IHb sg' sg2 [(x, ("auto", v))]); eauto.
          intros y My. simpl. destruct (String.eqb y x) eqn:E2; auto.
          apply String.eqb_eq in E2. subst. congruence.
        + intros a b0 [K3 K4]. apply IHl. split.
          * eapply Rst_weaken; [apply ale_spec; exact B2 | exact K3].
          * congruence. }
    apply G. split; auto.
  - (* SIf *)
    intros c b IHb els IHe sg sg' st1 st2 A H. rewrite ai_stmt_if in A. unfold opt_else in IHe.
    destruct (exp_ok ns c) eqn:C; try discriminate.
    destruct (ai_block ns brs b [] sg) as [s1|] eqn:A1; try discriminate.
    rewrite !exec_stmt_if. rewrite <- (eval_eq _ _ _ c H C).
    destruct (eval ev st1 c) as [v| |] eqn:EV; same_or_trivial.
    destruct (truth v) as [t| |] eqn:TV; same_or_trivial.
    destruct t.
    + (* then *)
      assert (exists s2, sg' = ajoin s1 s2) as [s2 ->].
      { destruct els as [b2|].
        - destruct (ai_block ns brs b2 [] (cond_false c sg)); try discriminate. inversion A. eauto.
        - inversion A. eauto. }
      eapply res_rel_mono.
      * eapply (IHb sg s1 []); eauto.
      * intros a b0 [K1 K2]. split; auto. eapply Rst_weaken; [apply ajoin_l | exact K1].
    + (* else *)
      pose proof (cond_false_rel _ _ _ c v H C EV TV) as HF.
      destruct els as [b2|].
      * destruct (ai_block ns brs b2 [] (cond_false c sg)) as [s2|] eqn:A2; try discriminate.
        inversion A; subst; clear A.
        eapply res_rel_mono.
        -- eapply (IHe (cond_false c sg) s2 []); eauto.
        -- intros a b0 [K1 K2]. split; auto. eapply Rst_weaken; [apply ajoin_r | exact K1].
      * inversion A; subst; clear A. simpl. split; auto.
        eapply Rst_weaken; [apply ajoin_r | exact HF].
  - (* SBlk *)
    intros b IHb sg sg' st1 st2 A H. cbn in A. cbn. eapply (IHb sg sg' []); eauto.
  - (* Blk *)
    intros ds body IH sg sg' pre st1 st2 A H P. rewrite ai_block_blk in A.
    destruct (ai_decls ns ds (map fst pre) (aforget_all (map fst pre) sg)) as [sg1|] eqn:D; try discriminate.
    destruct (ai_stmts ns brs body sg1) as [sg2|] eqn:B; try discriminate.
    inversion A; subst; clear A.
    rewrite !exec_block_blk.
    pose proof (push_frame_rel sg st1 st2 pre H P) as H0.
    eapply res_rel_bind.
    + eapply run_decls_rel; eauto; simpl; try discriminate.
    + intros a b [K1 K2]. eapply res_rel_bind.
      * eapply IH; eauto.
      * intros a2 b2 [K3 K4]. simpl. split.
        -- apply pop_frame_rel; auto. intros y Hy. unfold top_names in Hy.
           rewrite K2 in K4. unfold top_names in K4. simpl in K4.
           unfold shape in K4. destruct (frames a2) as [|f0 r0]; simpl in *; try contradiction.
           inversion K4. congruence.
        -- unfold pop_frame. simpl. rewrite K2 in K4. unfold shape in *.
           destruct (frames a2) as [|f0 r0]; simpl in *; try discriminate. inversion K4. reflexivity.
  - (* SNil *)
    intros sg sg' st1 st2 A H. cbn in A. inversion A; subst. split; auto.
  - (* SCons *)
    intros s IHs r IHr sg sg' st1 st2 A H. rewrite ai_stmts_cons in A.
    destruct (ai_stmt ns brs s sg) as [sg1|] eqn:A1; try discriminate.
    rewrite !exec_stmts_cons. eapply res_rel_bind.
    + eapply IHs; eauto.
    + intros a b [K1 K2]. eapply res_rel_mono.
      * eapply IHr; eauto.
      * intros a2 b2 [K3 K4]. split; auto. congruence.
Qed.
End Sound.

(* ---------- one event ---------- *)
Definition member_sig (p : program) : list (string * string) :=
  map (fun m => (m_name m, m_type m)) (p_members p).

(* a member state as it is at the start of an event of a job that has not failed: the declared members
   with their declared types, every vector-typed member empty, scalars arbitrary *)
Definition clean_members (p : program) (ms : frame) : Prop :=
  fsig ms = member_sig p /\
  Forall (fun b => is_vector_type (fst (snd b)) = true -> snd (snd b) = VVec []) ms.

Definition event_outcome_rel (p : program)
  (r1 r2 : res (list (list value) * frame)) : Prop :=
  match r1, r2 with
  | ROk (rs1, ms1'), ROk (rs2, ms2') => rs1 = rs2 /\ clean_members p ms1' /\ clean_members p ms2'
  | RFault f1, RFault f2 => f1 = f2
  | RStuck k1, RStuck k2 => k1 = k2
  | _, _ => False
  end.

Lemma member_sig_dom : forall p, map fst (member_sig p) = member_names p.
Proof. intros p. unfold member_sig, member_names. rewrite map_map. reflexivity. Qed.

Lemma nodupb_NoDup : forall l, nodupb l = true -> NoDup l.
Proof.
  induction l as [|x r IH]; simpl; intros H; constructor.
  - apply andb_true_iff in H. destruct H as [H _]. apply negb_true_iff in H.
    intros C. assert (existsb (String.eqb x) r = true).
    { apply existsb_exists. exists x. split; auto. apply String.eqb_refl. }
    congruence.
  - apply IH. apply andb_true_iff in H. apply H.
Qed.

Lemma frame_get_in_nodup : forall (f : frame) x tv, NoDup (map fst f) -> In (x, tv) f -> frame_get x f = Some tv.
Proof.
  induction f as [|[y w] r IH]; simpl; intros x tv N H; try contradiction.
  inversion N; subst. destruct H as [H|H].
  - inversion H; subst. rewrite String.eqb_refl. reflexivity.
  - destruct (String.eqb x y) eqn:E.
    + apply String.eqb_eq in E. subst. exfalso. apply H2. apply in_map_iff. exists (y, tv). auto.
    + apply IH; auto.
Qed.

(* the initial abstract state describes every clean member state *)
Lemma initial_rel : forall ms (f1 f2 : frame),
  fsig f1 = map (fun m => (m_name m, m_type m)) ms ->
  fsig f2 = map (fun m => (m_name m, m_type m)) ms ->
  Forall (fun b => is_vector_type (fst (snd b)) = true -> snd (snd b) = VVec []) f1 ->
  Forall (fun b => is_vector_type (fst (snd b)) = true -> snd (snd b) = VVec []) f2 ->
  forall x fs,
  vrel (aget x (map (fun m => (m_name m, if is_vector_type (m_type m) then LClean else LAny)) ms))
       fs (frame_get x f1) (frame_get x f2).
Proof.
  induction ms as [|m r IH]; intros f1 f2 S1 S2 V1 V2 x fs; simpl.
  - apply vrel_any.
  - destruct f1 as [|[y1 [t1 v1]] r1]; simpl in S1; try discriminate.
    destruct f2 as [|[y2 [t2 v2]] r2]; simpl in S2; try discriminate.
    inversion S1; subst. inversion S2; subst. inversion V1; subst. inversion V2; subst. simpl in *.
    destruct (String.eqb x (m_name m)) eqn:E.
    + destruct (is_vector_type (m_type m)) eqn:T; simpl; [|apply vrel_any].
      rewrite H1, H5; auto. eauto.
    + apply IH; auto.
Qed.

Lemma final_clean : forall p sg (f : frame),
  NoDup (member_names p) -> fsig f = member_sig p -> final_ok p sg = true ->
  (forall x, aget x sg = LClean -> exists t, frame_get x f = Some (t, VVec [])) ->
  clean_members p f.
Proof.
  intros p sg f N S F G. split; auto.
  apply Forall_forall. intros [x [t v]] Hin T. simpl in *.
  assert (Nf : NoDup (map fst f)). { rewrite <- fsig_dom, S, member_sig_dom. exact N. }
  pose proof (frame_get_in_nodup f x (t, v) Nf Hin) as Gx.
  assert (Hm : In (x, t) (member_sig p)). { rewrite <- S. unfold fsig. apply in_map_iff. exists (x, (t, v)). auto. }
  unfold member_sig in Hm. apply in_map_iff in Hm. destruct Hm as [m [Hm1 Hm2]]. inversion Hm1; subst.
  unfold final_ok in F. rewrite forallb_forall in F. specialize (F m Hm2). rewrite T in F.
  destruct (aget (m_name m) sg) eqn:L; try discriminate.
  destruct (G _ L) as [t' G']. rewrite Gx in G'. inversion G'. reflexivity.
Qed.

Theorem event_local_sound_proof : forall p, event_local p = true ->
  forall ev ms1 ms2, clean_members p ms1 -> clean_members p ms2 ->
  event_outcome_rel p (run_event p ms1 ev) (run_event p ms2 ev).
Proof.
  intros p EL ev ms1 ms2 [S1 V1] [S2 V2]. unfold event_local in EL.
  apply andb_true_iff in EL. destruct EL as [N EL]. apply nodupb_NoDup in N.
  destruct (event_local_state p) as [sg|] eqn:A; try discriminate.
  unfold event_local_state in A.
  set (st1 := {| frames := []; members := ms1; rows := [] |}).
  set (st2 := {| frames := []; members := ms2; rows := [] |}).
  assert (R0 : Rst (member_names p) (member_sig p) (initial_astate p) st1 st2).
  { constructor; simpl; auto.
    - intros x _. reflexivity.
    - congruence.
    - rewrite <- fsig_dom, S1. apply member_sig_dom.
    - intros x. apply initial_rel; auto. }
  pose proof (proj1 (proj2 (exec_sound (member_names p) (member_sig p) (p_branches p) ev)) (p_body p) _ _ [] st1 st2 A R0
                (fun x _ => eq_refl)) as K.
  unfold run_event. fold st1. fold st2.
  destruct (exec_block (p_branches p) ev (p_body p) [] st1) as [a| |],
           (exec_block (p_branches p) ev (p_body p) [] st2) as [b| |]; simpl in K; try contradiction; simpl; auto.
  destruct K as [K _].
  pose proof (R_rows _ _ _ _ _ K) as Kr. pose proof (R_msig _ _ _ _ _ K) as Ka.
  pose proof (R_sig _ _ _ _ _ K) as Kb. pose proof (R_mem _ _ _ _ _ K) as Km.
  split; [exact Kr|]. split.
  - eapply final_clean; eauto. intros x L. specialize (Km x). rewrite L in Km.
    destruct Km as [t [Km _]]. eauto.
  - eapply final_clean; eauto. { congruence. }
    intros x L. specialize (Km x). rewrite L in Km. destruct Km as [t [_ Km]]. eauto.
Qed.

(* ---------- jobs ---------- *)
(* the job in which every event is processed by a FRESH analysis object (nothing carried over) *)
Fixpoint per_event_from (p : program) (evs : list event) (n : nat) (acc : list (list (list value))) : job_result :=
  match evs with
  | [] => JDone acc
  | ev :: r =>
      match run_event p (initial_members (p_members p)) ev with
      | ROk (rs, _) => per_event_from p r (S n) (acc ++ [rs])
      | RFault f => JAbort acc n f
      | RStuck k => JStuck n k
      end
  end.
Definition per_event_job (p : program) (evs : list event) : job_result := per_event_from p evs 0 [].

(* rows of the one-event job *)
Definition event_rows (p : program) (ev : event) : list (list value) :=
  match run_job p [ev] with JDone [rs] => rs | _ => [] end.
Definition event_done (p : program) (ev : event) : Prop := run_job p [ev] = JDone [event_rows p ev].

Lemma initial_clean : forall p, clean_members p (initial_members (p_members p)).
Proof.
  intros p. unfold clean_members, initial_members, member_sig, fsig. split.
  - rewrite map_map. reflexivity.
  - apply Forall_forall. intros b Hb. apply in_map_iff in Hb. destruct Hb as [m [Hb _]]. subst. simpl.
    unfold default_value. intros T. rewrite T. reflexivity.
Qed.

Lemma run_job_single : forall p ev,
  run_job p [ev] = match run_event p (initial_members (p_members p)) ev with
                   | ROk (rs, _) => JDone [rs]
                   | RFault f => JAbort [] 0 f
                   | RStuck k => JStuck 0 k
                   end.
Proof.
  intros p ev. unfold run_job. simpl.
  destruct (run_event p (initial_members (p_members p)) ev) as [[rs ms]| |]; reflexivity.
Qed.

Lemma job_from_per_event : forall p, event_local p = true ->
  forall evs ms n acc, clean_members p ms -> run_job_from p ms evs n acc = per_event_from p evs n acc.
Proof.
  intros p EL. induction evs as [|ev r IH]; intros ms n acc C; simpl; auto.
  pose proof (event_local_sound_proof p EL ev ms _ C (initial_clean p)) as K.
  destruct (run_event p ms ev) as [[rs1 m1]| |],
           (run_event p (initial_members (p_members p)) ev) as [[rs2 m2]| |]; simpl in K; try contradiction.
  - destruct K as [K1 [K2 K3]]. subst. apply IH. exact K2.
  - subst. reflexivity.
  - subst. reflexivity.
Qed.

Theorem job_per_event_proof : forall p, event_local p = true ->
  forall evs, run_job p evs = per_event_job p evs.
Proof. intros p EL evs. apply job_from_per_event; auto. apply initial_clean. Qed.

Lemma per_event_done : forall p evs n acc rss,
  per_event_from p evs n acc = JDone rss ->
  rss = acc ++ map (event_rows p) evs /\ Forall (event_done p) evs.
Proof.
  intros p. induction evs as [|ev r IH]; intros n acc rss H; simpl in H.
  - inversion H. simpl. rewrite app_nil_r. auto.
  - pose proof (run_job_single p ev) as S.
    destruct (run_event p (initial_members (p_members p)) ev) as [[rs m]| |] eqn:E; try discriminate.
    apply IH in H. destruct H as [H1 H2].
    assert (Er : event_rows p ev = rs). { unfold event_rows. rewrite S. reflexivity. }
    split.
    + rewrite H1. simpl. rewrite Er. rewrite <- app_assoc. reflexivity.
    + constructor; auto. unfold event_done. rewrite Er. exact S.
Qed.

Lemma per_event_all_done : forall p evs n acc,
  Forall (event_done p) evs -> per_event_from p evs n acc = JDone (acc ++ map (event_rows p) evs).
Proof.
  intros p. induction evs as [|ev r IH]; intros n acc H; simpl.
  - rewrite app_nil_r. reflexivity.
  - inversion H; subst. unfold event_done in H2. rewrite run_job_single in H2.
    pose proof (run_job_single p ev) as S.
    destruct (run_event p (initial_members (p_members p)) ev) as [[rs m]| |] eqn:E; try discriminate.
    inversion H2 as [Er]. rewrite IH; auto. rewrite <- Er. rewrite <- app_assoc. reflexivity.
Qed.

Lemma per_event_abort : forall p evs n acc rss k f,
  per_event_from p evs n acc = JAbort rss k f ->
  exists pre ev post, evs = pre ++ ev :: post /\ k = n + List.length pre /\
                      rss = acc ++ map (event_rows p) pre /\ Forall (event_done p) pre /\
                      run_job p [ev] = JAbort [] 0 f.
Proof.
  intros p. induction evs as [|ev r IH]; intros n acc rss k f H; simpl in H; try discriminate.
  pose proof (run_job_single p ev) as S.
  destruct (run_event p (initial_members (p_members p)) ev) as [[rs m]| |] eqn:E; try discriminate.
  - apply IH in H. destruct H as [pre [ev' [post [H1 [H2 [H3 [H4 H5]]]]]]].
    assert (Er : event_rows p ev = rs). { unfold event_rows. rewrite S. reflexivity. }
    exists (ev :: pre), ev', post. subst. simpl. repeat split; auto.
    rewrite <- app_assoc. reflexivity.
  - inversion H; subst. exists [], ev, r. simpl. rewrite app_nil_r, <- plus_n_O. repeat split; auto.
Qed.

Theorem rows_per_event_proof : forall p, event_local p = true ->
  forall evs rss, run_job p evs = JDone rss ->
  rss = map (event_rows p) evs /\ Forall (event_done p) evs.
Proof.
  intros p EL evs rss H. rewrite (job_per_event_proof p EL) in H.
  apply per_event_done in H. exact H.
Qed.

Theorem abort_prefix_proof : forall p, event_local p = true ->
  forall evs rss k f, run_job p evs = JAbort rss k f ->
  exists pre ev post, evs = pre ++ ev :: post /\ k = List.length pre /\
                      rss = map (event_rows p) pre /\ Forall (event_done p) pre /\
                      run_job p [ev] = JAbort [] 0 f.
Proof.
  intros p EL evs rss k f H. rewrite (job_per_event_proof p EL) in H.
  apply per_event_abort in H. exact H.
Qed.

Theorem all_done_job_proof : forall p, event_local p = true ->
  forall evs, Forall (event_done p) evs -> run_job p evs = JDone (map (event_rows p) evs).
Proof.
  intros p EL evs H. rewrite (job_per_event_proof p EL). unfold per_event_job.
  rewrite per_event_all_done; auto.
Qed.

Theorem permutation_proof : forall p, event_local p = true ->
  forall evs evs' rss, Permutation evs evs' -> run_job p evs = JDone rss ->
  exists rss', run_job p evs' = JDone rss' /\ Permutation rss rss'.
Proof.
  intros p EL evs evs' rss P H.
  apply (rows_per_event_proof p EL) in H. destruct H as [H1 H2].
  exists (map (event_rows p) evs'). split.
  - apply all_done_job_proof; auto. eapply Permutation_Forall; eauto.
  - subst. apply Permutation_map. exact P.
Qed.

Theorem split_proof : forall p, event_local p = true ->
  forall evs1 evs2 rss,
  run_job p (evs1 ++ evs2) = JDone rss <->
  exists rss1 rss2, run_job p evs1 = JDone rss1 /\ run_job p evs2 = JDone rss2 /\ rss = rss1 ++ rss2.
Proof.
  intros p EL evs1 evs2 rss. split.
  - intros H. apply (rows_per_event_proof p EL) in H. destruct H as [H1 H2].
    apply Forall_app in H2. destruct H2 as [Ha Hb].
    exists (map (event_rows p) evs1), (map (event_rows p) evs2).
    repeat split; try (apply all_done_job_proof; auto).
    rewrite H1. apply map_app.
  - intros [rss1 [rss2 [H1 [H2 H3]]]].
    apply (rows_per_event_proof p EL) in H1. apply (rows_per_event_proof p EL) in H2.
    destruct H1 as [A1 A2], H2 as [B1 B2]. subst.
    rewrite <- map_app. apply all_done_job_proof; auto. apply Forall_app. auto.
Qed.

(* ---------- example programs (non-vacuity of the checker and of the theorems) ---------- *)
(* The shape the translator emits for
     ds.Select(lambda e: {"a": e.Jets("b1").Select(lambda j: j.pt()), "n": e.Jets("b1").Select(lambda j: j.pt()).Sum()})
   : a vector column (class member, pushed in a loop, cleared after Fill) and a block-local accumulator. *)
Definition jets_t : string := "const xAOD::JetContainer*".
Definition fetch_jets (target : string) : stmt :=
  SFetch "atlas" target jets_t "b1"
         ["const xAOD::JetContainer* result = 0;"; "ANA_CHECK (evtStore()->retrieve(result, ""b1""));"].
Definition pt_of (x : string) : cexp := CMeth (CVar x) true "pt" CNil.
Definition fill_line : string := "tree(""atlas_xaod_tree"")->Fill();".

Definition ex_body (with_clear : bool) : block :=
  Blk [ {| d_type := jets_t; d_name := "jets1"; d_init := None |};
        {| d_type := jets_t; d_name := "jets3"; d_init := None |};
        {| d_type := "double"; d_name := "aggResult5"; d_init := Some (CInt 0) |} ]
      (stmts_of_list
         ([ fetch_jets "jets1";
            SFor "i_obj2" (CDeref (CVar "jets1")) (Blk [] (stmts_of_list [SPush "_a6" None (pt_of "i_obj2")]));
            fetch_jets "jets3";
            SFor "i_obj4" (CDeref (CVar "jets3"))
                 (Blk [] (stmts_of_list [SSet "aggResult5" None (CBin "+" (CVar "aggResult5") (pt_of "i_obj4"))]));
            SSet "_n7" None (CVar "aggResult5");
            SFill fill_line ] ++ (if with_clear then [SClear "_a6"] else []))).

Definition ex_prog (body : block) : program :=
  {| p_members := [ {| m_type := "std::vector<double>"; m_name := "_a6" |}; {| m_type := "double"; m_name := "_n7" |} ];
     p_tree := "atlas_xaod_tree";
     p_branches := [ {| br_name := "a"; br_var := "_a6" |}; {| br_name := "n"; br_var := "_n7" |} ];
     p_book_extra := [];
     p_body := body |}.

Definition ex_good : program := ex_prog (ex_body true).
Definition ex_missing_clear : program := ex_prog (ex_body false).

(* the scalar column is assigned only inside the loop over the jets (the shape of DESIGN section 8 row 10:
   a value computed per outer element, Fill outside): nothing sets it when the collection is empty *)
Definition ex_scalar_in_loop : program :=
  ex_prog (Blk [ {| d_type := jets_t; d_name := "jets1"; d_init := None |} ]
               (stmts_of_list
                  [ fetch_jets "jets1";
                    SFor "i_obj2" (CDeref (CVar "jets1"))
                         (Blk [] (stmts_of_list [SPush "_a6" None (pt_of "i_obj2"); SSet "_n7" None (pt_of "i_obj2")]));
                    SFill fill_line; SClear "_a6" ])).

Definition ex_event (objs : list nat) (pts : list (nat * Z)) : event :=
  {| ev_colls := [ ((jets_t, "b1"), VVec (map VObj objs)) ];
     ev_meths := map (fun op => ((fst op, "pt"), VDbl (qz (snd op)))) pts |}.
Definition ev_two : event := ex_event [0; 1] [(0, 30%Z); (1, 5%Z)].
Definition ev_none : event := ex_event [] [].

Lemma ex_good_accepted : event_local ex_good = true.
Proof. vm_compute. reflexivity. Qed.

Lemma ex_good_rows :
  run_job ex_good [ev_two; ev_none; ev_two] =
  JDone [ [[VVec [VDbl (qz 30); VDbl (qz 5)]; VDbl (qz 35)]];
          [[VVec []; VDbl (qz 0)]];
          [[VVec [VDbl (qz 30); VDbl (qz 5)]; VDbl (qz 35)]] ].
Proof. vm_compute. reflexivity. Qed.

Lemma ex_missing_clear_rejected : event_local ex_missing_clear = false.
Proof. vm_compute. reflexivity. Qed.

Lemma ex_missing_clear_witness :
  exists evs rss, run_job ex_missing_clear evs = JDone rss /\ rss <> map (event_rows ex_missing_clear) evs.
Proof.
  exists [ev_two; ev_none]. eexists. split.
  - vm_compute. reflexivity.
  - intros H. vm_compute in H. discriminate H.
Qed.

Lemma ex_scalar_in_loop_rejected : event_local ex_scalar_in_loop = false.
Proof. vm_compute. reflexivity. Qed.

Lemma ex_scalar_in_loop_witness :
  exists evs rss, run_job ex_scalar_in_loop evs = JDone rss /\ rss <> map (event_rows ex_scalar_in_loop) evs.
Proof.
  exists [ev_two; ev_none]. eexists. split.
  - vm_compute. reflexivity.
  - intros H. vm_compute in H. discriminate H.
Qed.

(* permutation invariance is not vacuous either: the accepted program on a permuted list *)
Lemma ex_good_permuted :
  run_job ex_good [ev_none; ev_two; ev_two] =
  JDone [ [[VVec []; VDbl (qz 0)]];
          [[VVec [VDbl (qz 30); VDbl (qz 5)]; VDbl (qz 35)]];
          [[VVec [VDbl (qz 30); VDbl (qz 5)]; VDbl (qz 35)]] ].
Proof. vm_compute. reflexivity. Qed.

(* the First lowering, as emitted for  ds.Select(lambda e: e.Jets("b1").First().pt())  : the column is
   assigned under a block-local flag and a throw removes the case in which it was not - accepted thanks to
   the guarded level *)
Definition ex_first : program :=
  {| p_members := [ {| m_type := "double"; m_name := "_col13" |} ];
     p_tree := "atlas_xaod_tree";
     p_branches := [ {| br_name := "col1"; br_var := "_col13" |} ];
     p_book_extra := [];
     p_body :=
       Blk [ {| d_type := jets_t; d_name := "jets0"; d_init := None |};
             {| d_type := "bool"; d_name := "is_first2"; d_init := Some (CBool true) |} ]
           (stmts_of_list
              [ fetch_jets "jets0";
                SFor "i_obj1" (CDeref (CVar "jets0"))
                     (Blk [] (stmts_of_list
                        [ SIf (CVar "is_first2")
                              (Blk [] (stmts_of_list [ SSet "is_first2" None (CBool false);
                                                       SSet "_col13" None (pt_of "i_obj1") ]))
                              None ]));
                SIf (CVar "is_first2") (Blk [] (stmts_of_list [ SThrow "throw std::runtime_error(""First() called on an empty sequence"");" ])) None;
                SFill fill_line ]) |}.

Lemma ex_first_accepted : event_local ex_first = true.
Proof. vm_compute. reflexivity. Qed.

Lemma ex_first_rows :
  run_job ex_first [ev_two; ev_two] = JDone [ [[VDbl (qz 30)]]; [[VDbl (qz 30)]] ] /\
  run_job ex_first [ev_two; ev_none; ev_two] = JAbort [ [[VDbl (qz 30)]] ] 1 FThrow.
Proof. split; vm_compute; reflexivity. Qed.

(* DESIGN section 8 row 10, as emitted for  ds.Select(lambda e: e.Jets("b1").SelectMany(lambda j: j.vals()).Sum())  :
   the accumulator is declared, and the column assigned, inside the loop over the jets; Fill is outside *)
Definition ex_sum_after_selectmany : program :=
  {| p_members := [ {| m_type := "double"; m_name := "_col14" |} ];
     p_tree := "atlas_xaod_tree";
     p_branches := [ {| br_name := "col1"; br_var := "_col14" |} ];
     p_book_extra := [];
     p_body :=
       Blk [ {| d_type := jets_t; d_name := "jets0"; d_init := None |} ]
           (stmts_of_list
              [ fetch_jets "jets0";
                SFor "i_obj1" (CDeref (CVar "jets0"))
                     (Blk [ {| d_type := "double"; d_name := "aggResult3"; d_init := Some (CInt 0) |} ]
                          (stmts_of_list
                             [ SFor "i_obj2" (CMeth (CVar "i_obj1") true "vals" CNil)
                                    (Blk [] (stmts_of_list
                                       [ SSet "aggResult3" None (CBin "+" (CVar "aggResult3") (CVar "i_obj2")) ]));
                               SSet "_col14" None (CVar "aggResult3") ]));
                SFill fill_line ]) |}.

Definition ev_vals : event :=
  {| ev_colls := [ ((jets_t, "b1"), VVec [VObj 0]) ];
     ev_meths := [ ((0, "vals"), VVec [VDbl (qz 2); VDbl (qz 5)]) ] |}.

Lemma ex_sum_after_selectmany_rejected : event_local ex_sum_after_selectmany = false.
Proof. vm_compute. reflexivity. Qed.

Lemma ex_sum_after_selectmany_witness :
  run_job ex_sum_after_selectmany [ev_vals; ev_none] = JDone [ [[VDbl (qz 7)]]; [[VDbl (qz 7)]] ] /\
  run_job ex_sum_after_selectmany [ev_none] = JDone [ [[VUninit]] ].
Proof. split; vm_compute; reflexivity. Qed.
