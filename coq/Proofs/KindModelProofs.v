(* Fail-closed behaviour of the kind-level translator model: an unsupported construct makes translation
   return an error wherever it occurs in a strict position (a position whose representation the
   translator requests), at any nesting depth, for every registry, frame stack and fuel. *)
From FV Require Import Base.Prelude Model.KindModel.

Definition err {A} (r : result A) : Prop := match r with Error _ => True | OK _ => False end.
Arguments err : simpl never.

Lemma err_bind_l {A B} (r : result A) (f : A -> result B) : err r -> err (bind r f).
Proof. destruct r; unfold err; cbn; tauto. Qed.
Lemma err_bind_r {A B} (r : result A) (f : A -> result B) : (forall a, err (f a)) -> err (bind r f).
Proof. intro H. destruct r; cbn; [apply H|exact I]. Qed.
Lemma err_Error {A} (e : Prelude.err) : err (@Error A e). Proof. exact I. Qed.
#[export] Hint Resolve err_bind_l err_Error : kerr.

(* "always erroneous": never OK, whatever the registry context, frames and fuel *)
Definition always_err (G : registry) (u : expr) : Prop := forall fuel fs, err (visit G fuel fs u).

Ltac step :=
  match goal with
  | |- err (Error _) => exact I
  | |- err (bind ?r _) => let E := fresh "E" in destruct r eqn:E; cbn [bind]; [|exact I]
  | |- err (if ?c then _ else _) => destruct c eqn:?
  | |- err (match ?k with _ => _ end) => destruct k eqn:?
  end.

(* ---------- the documented unsupported constructs are always erroneous ---------- *)
Lemma fuel0 G fs u : err (visit G 0 fs u). Proof. exact I. Qed.

Lemma unknown_binop_refused G op a b :
  known_binop op = false -> String.eqb op "Pow" = false -> always_err G (EBinOp op a b).
Proof. intros H1 H2 [|f] fs; [exact I|]. cbn. rewrite H1, H2. exact I. Qed.

Lemma unknown_unop_refused G op a : known_unop op = false -> always_err G (EUnOp op a).
Proof. intros H [|f] fs; [exact I|]. cbn. rewrite H. exact I. Qed.

Lemma compare_chain_refused G ops l cs : List.length ops <> 1 -> always_err G (ECompare ops l cs).
Proof.
  intros H [|f] fs; [exact I|]. cbn.
  destruct ops as [|o [|o2 r]]; cbn in H; try exact I; try congruence.
Qed.

(* generic_visit of the children of a node without visitor, then the internal error *)
Lemma other_node_refused G cls ch : always_err G (EOther cls ch).
Proof.
  intros [|f] fs; [exact I|]. cbn.
  match goal with |- err (bind ?r _) => destruct r end; exact I.
Qed.

Lemma bare_lambda_refused G ps b : always_err G (ELambda ps b).
Proof. intros [|f] fs; exact I. Qed.

Lemma dict_unpack_refused G lit vs : always_err G (EDict true lit vs).
Proof. intros [|f] fs; exact I. Qed.

Lemma slice_refused G v cls ch : always_err G (ESubscript v (EOther cls ch)).
Proof.
  intros [|f] fs; [exact I|]. cbn. step. step; try exact I.
  pose proof (other_node_refused G cls ch f fs) as H.
  destruct (visit G f fs (EOther cls ch)); [destruct H|exact I].
Qed.

Lemma aggregate_two_args_refused G a b nkw : always_err G (ECall (EName "Aggregate") [a; b] nkw).
Proof. intros [|f] fs; exact I. Qed.

Lemma aggregate_lambda_seed_refused G ps bd i l nkw :
  always_err G (ECall (EName "Aggregate") [ELambda ps bd; i; l] nkw).
Proof. intros [|f] fs; exact I. Qed.

Lemma unknown_const_refused G tag :
  mem_str tag ["str"; "int"; "float"; "bool"] = false -> always_err G (EConst tag).
Proof.
  intros H [|f] fs; [exact I|]. cbn in *.
  destruct (String.eqb tag "str"); [discriminate|]. destruct (String.eqb tag "int"); [discriminate|].
  destruct (String.eqb tag "float"); [discriminate|]. destruct (String.eqb tag "bool"); [discriminate|]. exact I.
Qed.

Definition known_call (g : string) : bool :=
  mem_str g ["Select"; "SelectMany"; "Where"; "First"; "Aggregate"; "Range"; "EventDataset"; "ResultTTree"].

Lemma unknown_function_refused G g args nkw : known_call g = false -> always_err G (ECall (EName g) args nkw).
Proof.
  intros H [|f] fs; [exact I|]. cbn in H. cbn.
  repeat match type of H with
         | (if String.eqb g ?s then true else _) = false => destruct (String.eqb g s); [discriminate|]
         end.
  match goal with |- err (bind ?r _) => destruct r end; exact I.
Qed.

(* value used as a sequence / arithmetic on a sequence / wrong column count: conditional refusals *)
Lemma value_as_sequence_refused G f fs src ps body nkw g ty pd :
  In g ["Select"; "SelectMany"; "Where"] ->
  visit G f fs src = OK (KVal ty pd) ->
  err (visit G (S f) fs (ECall (EName g) [src; ELambda ps body] nkw)).
Proof.
  intros Hg Hs. cbn in Hg. destruct Hg as [<-|[<-|[<-|[]]]]; cbn; rewrite Hs; exact I.
Qed.

Lemma first_of_value_refused G f fs src nkw ty pd :
  visit G f fs src = OK (KVal ty pd) -> err (visit G (S f) fs (ECall (EName "First") [src] nkw)).
Proof. intro Hs. cbn. rewrite Hs. exact I. Qed.

Lemma sequence_arith_refused_l G f fs op a b v :
  known_binop op = true -> visit G f fs a = OK (KSeq v) -> err (visit G (S f) fs (EBinOp op a b)).
Proof.
  intros Hk Ha. cbn. rewrite Hk, Ha. cbn [bind].
  step. cbn [type_name bind]. step. cbn [bind]. exact I.
Qed.

Lemma sequence_arith_refused_r G f fs op a b v :
  known_binop op = true -> visit G f fs b = OK (KSeq v) -> err (visit G (S f) fs (EBinOp op a b)).
Proof.
  intros Hk Hb. cbn. rewrite Hk, Hb.
  destruct (visit G f fs a) as [ka|]; cbn [bind]; [|exact I].
  destruct (type_name ka) as [ta|]; cbn [bind type_name]; [|exact I].
  assert (H : err (most_accurate ta "std::vector")).
  { unfold most_accurate, is_num_type. cbn. rewrite andb_false_r. exact I. }
  destruct (most_accurate ta "std::vector"); [destruct H|exact I].
Qed.

(* ** (visit_special_BinOp): an operand that is not a plain number - an object, a pointer, a collection, a
   sequence, an enum value - is refused, in either position *)
Lemma pow_nonnumber_refused G f fs a b k :
  (visit G f fs a = OK k \/ visit G f fs b = OK k) -> err (pow_operand k) -> err (visit G (S f) fs (EBinOp "Pow" a b)).
Proof.
  intros H Hk. cbn. destruct H as [H|H]; rewrite H; cbn [bind].
  - step. apply err_bind_l. exact Hk.
  - step. cbn [bind]. step. apply err_bind_l. exact Hk.
Qed.

(* + - * / %: an operand whose type is not int/float/double (an object, a collection, a sequence, a bool) is
   refused by most_accurate_type, in either position *)
Lemma arith_nonnumber_refused G f fs op a b k t :
  known_binop op = true -> (visit G f fs a = OK k \/ visit G f fs b = OK k) ->
  type_name k = OK t -> is_num_type t = false -> err (visit G (S f) fs (EBinOp op a b)).
Proof.
  intros Hop H Ht Hn. cbn. rewrite Hop. destruct H as [H|H]; rewrite H; cbn [bind].
  - step. rewrite Ht. cbn [bind]. step. unfold most_accurate. rewrite Hn. exact I.
  - step. cbn [bind]. step. rewrite Ht. cbn [bind]. unfold most_accurate. rewrite Hn, andb_false_r. exact I.
Qed.

(* unary + and -: an operand that is not a plain number is refused *)
Lemma unary_nonnumber_refused G f fs op a k :
  String.eqb op "Not" = false -> visit G f fs a = OK k -> err (pow_operand k) -> err (visit G (S f) fs (EUnOp op a)).
Proof.
  intros Hop H Hk. cbn. step; [|exact I]. rewrite H. cbn [bind]. rewrite Hop. apply err_bind_l. exact Hk.
Qed.

Lemma column_count_mismatch_refused v n :
  List.length (match v with KTuple ks => ks | _ => [v] end) <> n -> err (result_ttree (KSeq v) n).
Proof.
  intro H. unfold result_ttree. destruct (Nat.eqb_spec (List.length (match v with KTuple ks => ks | _ => [v] end)) n); [contradiction|].
  exact I.
Qed.

(* ---------- strict contexts ---------- *)
Inductive ctx :=
| CHole
| CBinL (op : string) (c : ctx) (b : expr) | CBinR (op : string) (a : expr) (c : ctx)
| CUn (op : string) (c : ctx)
| CCmpL (op : string) (c : ctx) (r : expr) | CCmpR (op : string) (l : expr) (c : ctx)
| CBool (op : string) (pre : list expr) (c : ctx) (post : list expr)
| CIfC (c : ctx) (a b : expr) | CIfA (t : expr) (c : ctx) (b : expr) | CIfB (t a : expr) (c : ctx)
| CSubV (c : ctx) (i : expr) | CSubI (v : expr) (c : ctx)
| CTuple (pre : list expr) (c : ctx) (post : list expr)
| CList (pre : list expr) (c : ctx) (post : list expr)
| CDictV (lit : bool) (pre : list expr) (c : ctx) (post : list expr)
| CAttr (c : ctx) (a : string)
| CMethRecv (c : ctx) (m : string) (args : list expr) (nkw : nat)
| CMethArg (recv : expr) (m : string) (pre : list expr) (c : ctx) (post : list expr) (nkw : nat)
| CFunArg (cpp ret : string) (pre : list expr) (c : ctx) (post : list expr) (nkw : nat)
| CLamBody (ps : list string) (c : ctx) (args : list expr) (nkw : nat)
| CSelSrc (g : string) (c : ctx) (lam : expr) (nkw : nat)            (* g in Select SelectMany Where *)
| CSelBody (g : string) (src : expr) (ps : list string) (c : ctx) (nkw : nat)
| CFirst (c : ctx) (nkw : nat)
| CAggSrc (c : ctx) (init lam : expr) (nkw : nat)
| CAggInit (src : expr) (c : ctx) (lam : expr) (nkw : nat)
| CAggBody (src init : expr) (ps : list string) (c : ctx) (nkw : nat)
| CRangeLo (c : ctx) (hi : expr) (nkw : nat) | CRangeHi (lo : expr) (c : ctx) (nkw : nat)
| CTreeSrc (c : ctx) (names tree file : expr) (nkw : nat).

Fixpoint plug (c : ctx) (u : expr) : expr :=
  match c with
  | CHole => u
  | CBinL op c b => EBinOp op (plug c u) b | CBinR op a c => EBinOp op a (plug c u)
  | CUn op c => EUnOp op (plug c u)
  | CCmpL op c r => ECompare [op] (plug c u) [r] | CCmpR op l c => ECompare [op] l [plug c u]
  | CBool op pre c post => EBoolOp op (pre ++ plug c u :: post)
  | CIfC c a b => EIfExp (plug c u) a b | CIfA t c b => EIfExp t (plug c u) b | CIfB t a c => EIfExp t a (plug c u)
  | CSubV c i => ESubscript (plug c u) i | CSubI v c => ESubscript v (plug c u)
  | CTuple pre c post => ETuple (pre ++ plug c u :: post)
  | CList pre c post => EList (pre ++ plug c u :: post)
  | CDictV lit pre c post => EDict false lit (pre ++ plug c u :: post)
  | CAttr c a => EAttr (plug c u) a
  | CMethRecv c m args nkw => ECall (EAttr (plug c u) m) args nkw
  | CMethArg recv m pre c post nkw => ECall (EAttr recv m) (pre ++ plug c u :: post) nkw
  | CFunArg cpp ret pre c post nkw => ECall (EFunAst cpp ret) (pre ++ plug c u :: post) nkw
  | CLamBody ps c args nkw => ECall (ELambda ps (plug c u)) args nkw
  | CSelSrc g c lam nkw => ECall (EName g) [plug c u; lam] nkw
  | CSelBody g src ps c nkw => ECall (EName g) [src; ELambda ps (plug c u)] nkw
  | CFirst c nkw => ECall (EName "First") [plug c u] nkw
  | CAggSrc c init lam nkw => ECall (EName "Aggregate") [plug c u; init; lam] nkw
  | CAggInit src c lam nkw => ECall (EName "Aggregate") [src; plug c u; lam] nkw
  | CAggBody src init ps c nkw => ECall (EName "Aggregate") [src; init; ELambda ps (plug c u)] nkw
  | CRangeLo c hi nkw => ECall (EName "Range") [plug c u; hi] nkw
  | CRangeHi lo c nkw => ECall (EName "Range") [lo; plug c u] nkw
  | CTreeSrc c names tree file nkw => ECall (EName "ResultTTree") [plug c u; names; tree; file] nkw
  end.

Fixpoint ctx_ok (c : ctx) : bool :=
  match c with
  | CHole => true
  | CBinL _ c _ | CBinR _ _ c | CUn _ c | CCmpL _ c _ | CCmpR _ _ c | CBool _ _ c _
  | CIfC c _ _ | CIfA _ c _ | CIfB _ _ c | CSubV c _ | CSubI _ c | CTuple _ c _ | CList _ c _ | CDictV _ _ c _
  | CAttr c _ | CMethRecv c _ _ _ | CMethArg _ _ _ c _ _ | CFunArg _ _ _ c _ _ | CLamBody _ c _ _
  | CFirst c _ | CAggSrc c _ _ _ | CAggInit _ c _ _ | CAggBody _ _ _ c _ | CRangeLo c _ _ | CRangeHi _ c _
  | CTreeSrc c _ _ _ _ => ctx_ok c
  | CSelSrc g c _ _ | CSelBody g _ _ c _ => mem_str g ["Select"; "SelectMany"; "Where"] && ctx_ok c
  end.

(* visiting a list in which one element is always erroneous *)
Lemma vis_list_err G f fs x pre post :
  err (visit G f fs x) ->
  err ((fix go (l : list expr) : result (list kind) :=
          match l with [] => OK [] | a :: r => do k <- visit G f fs a; do ks <- go r; OK (k :: ks) end)
       (pre ++ x :: post)).
Proof.
  intro H. induction pre as [|p pre IH]; cbn.
  - apply err_bind_l, H.
  - apply err_bind_r. intro k. apply err_bind_l, IH.
Qed.

Lemma vis_all_cpp_err G f fs x pre post :
  err (visit G f fs x) ->
  err ((fix go (l : list expr) : result unit :=
          match l with [] => OK tt | a :: r => do _ <- (do k <- visit G f fs a; do _ <- as_cpp k; OK k); go r end)
       (pre ++ x :: post)).
Proof.
  intro H. induction pre as [|p pre IH]; cbn.
  - apply err_bind_l, err_bind_l, H.
  - apply err_bind_r. intro k. exact IH.
Qed.

Ltac use H := repeat (apply err_bind_l); apply H.

Theorem refuses_in_context G u : always_err G u -> forall c, ctx_ok c = true -> always_err G (plug c u).
Proof.
  intros Hu c. induction c; intro Hok; cbn [plug ctx_ok] in *; try (apply andb_prop in Hok as [Hg Hok]);
    try specialize (IHc Hok); intros [|f] fs; try exact I.
  - (* hole *) apply Hu.
  - (* binL *) cbn. step; [|step; [|exact I]]; use IHc.
  - (* binR *) cbn. step; [|step; [|exact I]].
    + apply err_bind_r; intro. use IHc.
    + step. use IHc.
  - (* un *) cbn. step; [|exact I]. apply err_bind_l, IHc.
  - (* cmpL *) cbn. apply err_bind_l, err_bind_l, IHc.
  - (* cmpR *) cbn. apply err_bind_r; intro. apply err_bind_l, err_bind_l, IHc.
  - (* boolop *) cbn. apply err_bind_l. apply vis_list_err, IHc.
  - cbn. use IHc.
  - cbn. apply err_bind_r; intro. use IHc.
  - cbn. apply err_bind_r; intro. apply err_bind_r; intro. use IHc.
  - (* subV *) cbn. use IHc.
  - (* subI *) cbn. apply err_bind_r; intro k. destruct k; try exact I. apply err_bind_l, err_bind_l, IHc.
  - cbn. apply err_bind_l, vis_list_err, IHc.
  - cbn. apply err_bind_l, vis_list_err, IHc.
  - cbn. apply err_bind_l, vis_list_err, IHc.
  - (* attr *) cbn. use IHc.
  - (* method receiver *) cbn. use IHc.
  - (* method argument *) cbn. apply err_bind_r; intro k. step; [exact I|].
    apply err_bind_r; intro. apply err_bind_l. apply vis_all_cpp_err, IHc.
  - (* function argument *) cbn. apply err_bind_l, vis_list_err, IHc.
  - (* lambda body *) cbn. apply IHc.
  - (* Select/SelectMany/Where source *)
    cbn in Hg.
    destruct (String.eqb g "Select") eqn:E1; [apply String.eqb_eq in E1; subst g|
    destruct (String.eqb g "SelectMany") eqn:E2; [apply String.eqb_eq in E2; subst g|
    destruct (String.eqb g "Where") eqn:E3; [apply String.eqb_eq in E3; subst g|discriminate]]];
    cbn; destruct lam; try exact I; apply err_bind_l, err_bind_l, IHc.
  - (* Select/SelectMany/Where body *)
    cbn in Hg.
    destruct (String.eqb g "Select") eqn:E1; [apply String.eqb_eq in E1; subst g|
    destruct (String.eqb g "SelectMany") eqn:E2; [apply String.eqb_eq in E2; subst g|
    destruct (String.eqb g "Where") eqn:E3; [apply String.eqb_eq in E3; subst g|discriminate]]];
    cbn; apply err_bind_r; intro s; destruct s; try exact I.
    + apply err_bind_l. destruct f as [|f']; [exact I|]. cbn. apply IHc.
    + apply err_bind_l. destruct f as [|f']; [exact I|]. cbn. apply IHc.
    + apply err_bind_l, err_bind_l. destruct f as [|f']; [exact I|]. cbn. apply IHc.
  - (* First *) cbn. apply err_bind_l, err_bind_l, IHc.
  - (* Aggregate source *)
    cbn. pose proof (IHc f fs) as Hv. destruct (plug c u); try exact I;
      (apply err_bind_r; intro ki; destruct lam; try exact I; apply err_bind_l, err_bind_l; exact Hv).
  - (* Aggregate seed *) cbn. destruct src; try exact I; use IHc.
  - (* Aggregate body *)
    cbn. destruct src; try exact I;
      (apply err_bind_r; intro ki; apply err_bind_r; intro s; apply err_bind_r; intro ti; step; [exact I|];
       destruct s; try exact I; apply err_bind_l; destruct f as [|f']; [exact I|]; cbn; apply IHc).
  - cbn. apply err_bind_l, err_bind_l, IHc.
  - cbn. apply err_bind_r; intro. apply err_bind_l, err_bind_l, IHc.
  - (* ResultTTree source *)
    cbn. destruct names; try exact I. destruct tree; try exact I. destruct is_str0; try exact I.
    apply err_bind_l, err_bind_l, IHc.
Qed.

(* the executor entry point: a query whose top-level call contains the construct never yields a package *)
Theorem translate_refuses G u c g args1 args2 nkw :
  always_err G u -> ctx_ok c = true ->
  always_err G (ECall (EName g) (args1 ++ plug c u :: args2) nkw) ->
  forall fuel, err (translate G fuel (ECall (EName g) (args1 ++ plug c u :: args2) nkw)).
Proof.
  intros _ _ H fuel. unfold translate.
  destruct (String.eqb g "ResultTTree"); [apply H|]. apply err_bind_l, H.
Qed.

Corollary translate_refuses_top G top : always_err G top -> forall fuel, err (translate G fuel top).
Proof.
  intros H fuel. unfold translate. destruct top; try exact I. destruct top; try exact I.
  destruct (String.eqb x "ResultTTree"); [apply H|]. apply err_bind_l, H.
Qed.

(* keyword arguments are not looked at by the model of the translator (and by the translator): the
   documented refusal of malformed calls does not cover them - recorded as a finding *)
Lemma kwargs_ignored G fuel fs f args n m : visit G fuel fs (ECall f args n) = visit G fuel fs (ECall f args m).
Proof. destruct fuel; reflexivity. Qed.

(* ---------- the argument-count pre-pass (fix 109dd7d) refuses a malformed sequence call at ANY position ---------- *)
Lemma all_arity_fix (l : list expr) :
  (fix all (l : list expr) : bool := match l with [] => true | x :: r => seq_arity_ok x && all r end) l = all_arity_ok l.
Proof. induction l as [|x r IH]; cbn [all_arity_ok]; [reflexivity|]. rewrite IH. reflexivity. Qed.
Lemma all_arity_mid (pre post : list expr) (x : expr) : seq_arity_ok x = false -> all_arity_ok (pre ++ x :: post) = false.
Proof.
  intro H. induction pre as [|p r IH]; cbn [app all_arity_ok]; [rewrite H; reflexivity|].
  rewrite IH. apply andb_false_r.
Qed.
Definition bad_seq_call (u : expr) : Prop :=
  exists g args nkw, u = ECall (EName g) args nkw /\ mem_str g ["Select"; "SelectMany"; "Where"] = true /\
                     (List.length args <> 2 \/ nkw <> 0).
Lemma bad_seq_call_refused (u : expr) : bad_seq_call u -> seq_arity_ok u = false.
Proof.
  intros (g & args & nkw & -> & Hg & Hbad). cbn [seq_arity_ok is_seq_op].
  assert (Eg : (String.eqb g "Select" || String.eqb g "SelectMany" || String.eqb g "Where") = true).
  { cbn [mem_str] in Hg. destruct (String.eqb g "Select"); [reflexivity|]. destruct (String.eqb g "SelectMany"); [reflexivity|].
    destruct (String.eqb g "Where"); [reflexivity|discriminate]. }
  rewrite Eg.
  assert (Eb : (Nat.eqb (List.length args) 2 && Nat.eqb nkw 0) = false).
  { destruct Hbad as [H|H]; [apply Nat.eqb_neq in H; rewrite H; reflexivity|apply Nat.eqb_neq in H; rewrite H; apply andb_false_r]. }
  rewrite Eb. reflexivity.
Qed.
Theorem prepass_refuses_in_context (u : expr) : seq_arity_ok u = false -> forall c, seq_arity_ok (plug c u) = false.
Proof.
  intros Hu c. induction c; cbn [plug seq_arity_ok]; rewrite ?all_arity_fix; try exact Hu;
    repeat match goal with
           | |- context [all_arity_ok (?pre ++ plug ?c u :: ?post)] => rewrite (all_arity_mid pre post (plug c u) IHc)
           | |- context [seq_arity_ok (plug ?c u)] => rewrite IHc
           end;
    cbn [all_arity_ok seq_arity_ok]; rewrite ?all_arity_fix, ?IHc, ?andb_false_r, ?andb_false_l; try reflexivity.
Qed.
Corollary prepass_refuses_bad_call_anywhere (u : expr) (c : ctx) : bad_seq_call u -> prepass (plug c u) = Error ErrValue.
Proof. intro H. unfold prepass. rewrite (prepass_refuses_in_context u (bad_seq_call_refused u H) c). reflexivity. Qed.
