(* C16 - the master lemma of each backend over its family of worlds: a package that was never built
   (fresh_world) or one in which a build has succeeded and any number of runs have left their files
   (built_world), every environment, every content of the destination and run-directory files. *)
From FV Require Import Base.Prelude Model.Shell Proofs.ShellProofs Proofs.C16Proofs.
From FV Require gen.Runner_atlas_r21 gen.Runner_cms_r5 gen.Runner_cms_r7.
From FV Require Proofs.Runner_atlas_r21_Proofs Proofs.Runner_atlas_r21_Built Proofs.Runner_cms_r5_Proofs Proofs.Runner_cms_r5_Built Proofs.Runner_cms_r7_Proofs Proofs.Runner_cms_r7_Built.

(* ---------------- atlas_r21 ---------------- *)
Definition B_atlas_r21 : backend := Runner_atlas_r21_Proofs.B.
Definition fresh_atlas_r21 (cfg : config) (W : fs) : Prop := exists v1 v2 v3, W = fresh_world Runner_atlas_r21_Proofs.B cfg v1 v2 v3.
Definition built_atlas_r21 (cfg : config) (W : fs) : Prop := exists v1 v2 v3 fl bg ro, W = Runner_atlas_r21_Built.built_world cfg v1 v2 v3 fl bg ro.
Definition world_atlas_r21 (cfg : config) (W : fs) : Prop := fresh_atlas_r21 cfg W \/ built_atlas_r21 cfg W.
Lemma master_atlas_r21 : master B_atlas_r21 Runner_atlas_r21.script world_atlas_r21.
Proof.
  intros cfg W args o n [[v1 [v2 [v3 ->]]]|[v1 [v2 [v3 [fl [bg [ro ->]]]]]]] Hok.
  - apply Runner_atlas_r21_Proofs.master_fresh. exact Hok.
  - apply Runner_atlas_r21_Built.master_built. exact Hok.
Qed.
(* the family of built worlds starts where a build ends *)
Lemma built_base_atlas_r21 : forall cfg v1 v2 v3,
  Runner_atlas_r21_Built.built_world cfg v1 v2 v3 None None None =
  (invoke Runner_atlas_r21.script cfg (fresh_world Runner_atlas_r21_Proofs.B cfg v1 v2 v3) ["-c"] none "").(r_st).(fsys).
Proof. intros [[] [] [] [] [] []] v1 v2 v3; vm_compute; reflexivity. Qed.
(* every invocation in a built world meets the specification, whatever earlier runs left behind *)
Lemma built_step_atlas_r21 : forall cfg W (i : invocation), built_atlas_r21 cfg W -> words_ok i.(i_args) ->
  spec B_atlas_r21 (classify i.(i_args)) W i.(i_oracle) i.(i_nonce) (invoke Runner_atlas_r21.script cfg W i.(i_args) i.(i_oracle) i.(i_nonce)).
Proof. intros cfg W i Hb Hok. apply master_atlas_r21; [right; exact Hb|exact Hok]. Qed.

(* ---------------- cms_r5 ---------------- *)
Definition B_cms_r5 : backend := Runner_cms_r5_Proofs.B.
Definition fresh_cms_r5 (cfg : config) (W : fs) : Prop := exists v1 v2 v3, W = fresh_world Runner_cms_r5_Proofs.B cfg v1 v2 v3.
Definition built_cms_r5 (cfg : config) (W : fs) : Prop := exists v1 v2 v3 fl bg ro, W = Runner_cms_r5_Built.built_world cfg v1 v2 v3 fl bg ro.
Definition world_cms_r5 (cfg : config) (W : fs) : Prop := fresh_cms_r5 cfg W \/ built_cms_r5 cfg W.
Lemma master_cms_r5 : master B_cms_r5 Runner_cms_r5.script world_cms_r5.
Proof.
  intros cfg W args o n [[v1 [v2 [v3 ->]]]|[v1 [v2 [v3 [fl [bg [ro ->]]]]]]] Hok.
  - apply Runner_cms_r5_Proofs.master_fresh. exact Hok.
  - apply Runner_cms_r5_Built.master_built. exact Hok.
Qed.
(* the family of built worlds starts where a build ends *)
Lemma built_base_cms_r5 : forall cfg v1 v2 v3,
  Runner_cms_r5_Built.built_world cfg v1 v2 v3 None None None =
  (invoke Runner_cms_r5.script cfg (fresh_world Runner_cms_r5_Proofs.B cfg v1 v2 v3) ["-c"] none "").(r_st).(fsys).
Proof. intros [[] [] [] [] [] []] v1 v2 v3; vm_compute; reflexivity. Qed.
(* every invocation in a built world meets the specification, whatever earlier runs left behind *)
Lemma built_step_cms_r5 : forall cfg W (i : invocation), built_cms_r5 cfg W -> words_ok i.(i_args) ->
  spec B_cms_r5 (classify i.(i_args)) W i.(i_oracle) i.(i_nonce) (invoke Runner_cms_r5.script cfg W i.(i_args) i.(i_oracle) i.(i_nonce)).
Proof. intros cfg W i Hb Hok. apply master_cms_r5; [right; exact Hb|exact Hok]. Qed.

(* ---------------- cms_r7 ---------------- *)
Definition B_cms_r7 : backend := Runner_cms_r7_Proofs.B.
Definition fresh_cms_r7 (cfg : config) (W : fs) : Prop := exists v1 v2 v3, W = fresh_world Runner_cms_r7_Proofs.B cfg v1 v2 v3.
Definition built_cms_r7 (cfg : config) (W : fs) : Prop := exists v1 v2 v3 fl bg ro, W = Runner_cms_r7_Built.built_world cfg v1 v2 v3 fl bg ro.
Definition world_cms_r7 (cfg : config) (W : fs) : Prop := fresh_cms_r7 cfg W \/ built_cms_r7 cfg W.
Lemma master_cms_r7 : master B_cms_r7 Runner_cms_r7.script world_cms_r7.
Proof.
  intros cfg W args o n [[v1 [v2 [v3 ->]]]|[v1 [v2 [v3 [fl [bg [ro ->]]]]]]] Hok.
  - apply Runner_cms_r7_Proofs.master_fresh. exact Hok.
  - apply Runner_cms_r7_Built.master_built. exact Hok.
Qed.
(* the family of built worlds starts where a build ends *)
Lemma built_base_cms_r7 : forall cfg v1 v2 v3,
  Runner_cms_r7_Built.built_world cfg v1 v2 v3 None None None =
  (invoke Runner_cms_r7.script cfg (fresh_world Runner_cms_r7_Proofs.B cfg v1 v2 v3) ["-c"] none "").(r_st).(fsys).
Proof. intros [[] [] [] [] [] []] v1 v2 v3; vm_compute; reflexivity. Qed.
(* every invocation in a built world meets the specification, whatever earlier runs left behind *)
Lemma built_step_cms_r7 : forall cfg W (i : invocation), built_cms_r7 cfg W -> words_ok i.(i_args) ->
  spec B_cms_r7 (classify i.(i_args)) W i.(i_oracle) i.(i_nonce) (invoke Runner_cms_r7.script cfg W i.(i_args) i.(i_oracle) i.(i_nonce)).
Proof. intros cfg W i Hb Hok. apply master_cms_r7; [right; exact Hb|exact Hok]. Qed.

Lemma runner_atlas_r21 :
  master B_atlas_r21 Runner_atlas_r21.script world_atlas_r21 /\
  (forall cfg v1 v2 v3, built_atlas_r21 cfg (invoke Runner_atlas_r21.script cfg (fresh_world B_atlas_r21 cfg v1 v2 v3) ["-c"] none "").(r_st).(fsys)).
Proof.
  split; [exact master_atlas_r21|].
  intros cfg v1 v2 v3. exists v1, v2, v3, None, None, None. symmetry. apply built_base_atlas_r21.
Qed.

Lemma runner_cms_r5 :
  master B_cms_r5 Runner_cms_r5.script world_cms_r5 /\
  (forall cfg v1 v2 v3, built_cms_r5 cfg (invoke Runner_cms_r5.script cfg (fresh_world B_cms_r5 cfg v1 v2 v3) ["-c"] none "").(r_st).(fsys)).
Proof.
  split; [exact master_cms_r5|].
  intros cfg v1 v2 v3. exists v1, v2, v3, None, None, None. symmetry. apply built_base_cms_r5.
Qed.

Lemma runner_cms_r7 :
  master B_cms_r7 Runner_cms_r7.script world_cms_r7 /\
  (forall cfg v1 v2 v3, built_cms_r7 cfg (invoke Runner_cms_r7.script cfg (fresh_world B_cms_r7 cfg v1 v2 v3) ["-c"] none "").(r_st).(fsys)).
Proof.
  split; [exact master_cms_r7|].
  intros cfg v1 v2 v3. exists v1, v2, v3, None, None, None. symmetry. apply built_base_cms_r7.
Qed.
