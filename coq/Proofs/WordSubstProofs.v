(* Proofs about Model/WordSubst.v (property C11). *)
From Coq Require Import List String Ascii Bool Arith NArith Nnat Lia.
From FV Require Import Base.Prelude Model.WordSubst.

(* ------------------------------------------------------------------------------------------ *)
(* strings                                                                                      *)
(* ------------------------------------------------------------------------------------------ *)
Lemma app_empty_r : forall s : string, s +++ EmptyString = s.
Proof. induction s as [|c s IH]; simpl; [reflexivity | now rewrite IH]. Qed.

Lemma app_assoc_str : forall a b c : string, (a +++ b) +++ c = a +++ (b +++ c).
Proof. induction a as [|x a IH]; intros b c; simpl; [reflexivity | now rewrite IH]. Qed.

Lemma app_inv_head_str : forall a b c : string, a +++ b = a +++ c -> b = c.
Proof. induction a as [|x a IH]; intros b c H; simpl in H; [exact H | injection H as H; now apply IH]. Qed.

Lemma length_app_str : forall a b : string, String.length (a +++ b) = String.length a + String.length b.
Proof. induction a as [|x a IH]; intros b; simpl; [reflexivity | now rewrite IH]. Qed.

Lemma concat_str_app : forall l1 l2 : list string, concat_str (l1 ++ l2) = concat_str l1 +++ concat_str l2.
Proof. induction l1 as [|x l1 IH]; intros l2; simpl; [reflexivity | now rewrite IH, app_assoc_str]. Qed.

Definition nonword (c : ascii) : bool := negb (is_word c).

(* ------------------------------------------------------------------------------------------ *)
(* the tokeniser of the specification yields exactly the maximal runs                           *)
(* ------------------------------------------------------------------------------------------ *)
Lemma concat_tokenise : forall s, concat_str (tokenise s) = s.
Proof.
  induction s as [|c s IH]; simpl; [reflexivity|].
  destruct (tokenise s) as [|t ts] eqn:Ht.
  - simpl in IH. subst s. reflexivity.
  - destruct (Bool.eqb (is_word c) (head_word t)); simpl in *; now rewrite IH.
Qed.

Lemma tokenise_head : forall c r, exists t ts, tokenise (String c r) = String c t :: ts.
Proof.
  intros c r. simpl. destruct (tokenise r) as [|t ts].
  - now exists EmptyString, [].
  - destruct (Bool.eqb (is_word c) (head_word t)).
    + now exists t, ts.
    + now exists EmptyString, (t :: ts).
Qed.

(* all characters of [t] are of class [w] *)
Definition homog (w : bool) (t : string) : bool := all_chars (fun c => Bool.eqb (is_word c) w) t.

(* a non-empty run of one class followed by nothing or by a character of the other class is a token *)
Lemma tokenise_run : forall w run rest,
  run <> EmptyString -> homog w run = true ->
  (rest = EmptyString \/ head_word rest = negb w /\ rest <> EmptyString) ->
  tokenise (run +++ rest) = run :: tokenise rest.
Proof.
  intros w run. induction run as [|c run IH]; intros rest Hne Hh Hrest; [congruence|].
  simpl in Hh. apply andb_true_iff in Hh as [Hc Hh]. apply eqb_prop in Hc.
  destruct run as [|c2 run2].
  - simpl. destruct Hrest as [-> | [Hhd Hnz]]; [reflexivity|].
    destruct rest as [|d r2]; [congruence|].
    destruct (tokenise_head d r2) as (t & ts & Ht). rewrite Ht. simpl. simpl in Hhd.
    rewrite Hc, Hhd. destruct w; reflexivity.
  - assert (Hrun : tokenise (String c2 run2 +++ rest) = String c2 run2 :: tokenise rest).
    { apply IH; [congruence | exact Hh | exact Hrest]. }
    change (String c (String c2 run2) +++ rest) with (String c (String c2 run2 +++ rest)).
    cbn [tokenise]. rewrite Hrun. cbn [head_word].
    simpl in Hh. apply andb_true_iff in Hh as [Hc2 _]. apply eqb_prop in Hc2.
    rewrite Hc, Hc2. now rewrite eqb_reflx.
Qed.

(* characterisation: concatenation gives back the line, every token is a non-empty run of one class,
   neighbouring tokens are of different classes (hence the runs are maximal) *)
Fixpoint alternating (ts : list string) : Prop :=
  match ts with
  | t1 :: ((t2 :: _) as r) => head_word t1 <> head_word t2 /\ alternating r
  | _ => True
  end.

Lemma tokenise_tokens_ok : forall s,
  Forall (fun t => t <> EmptyString /\ homog (head_word t) t = true) (tokenise s) /\ alternating (tokenise s).
Proof.
  induction s as [|c s [IHf IHa]]; [split; constructor|].
  simpl. destruct (tokenise s) as [|t ts] eqn:Ht.
  - split; [|exact I]. constructor; [|constructor]. split; [congruence|].
    unfold homog. simpl. now rewrite eqb_reflx.
  - destruct (Bool.eqb (is_word c) (head_word t)) eqn:Hc.
    + apply eqb_prop in Hc. inversion IHf as [|? ? [Hne Hh] Hrest]; subst.
      split.
      * constructor; [|exact Hrest]. split; [congruence|].
        unfold homog. simpl. rewrite eqb_reflx. simpl. rewrite Hc. exact Hh.
      * destruct ts as [|t2 ts2]; [exact I|]. simpl in IHa |- *. rewrite Hc. exact IHa.
    + split.
      * constructor; [|exact IHf]. split; [congruence|]. unfold homog. simpl. now rewrite eqb_reflx.
      * simpl. split; [|exact IHa]. intro E. rewrite E, eqb_reflx in Hc. discriminate.
Qed.

(* ------------------------------------------------------------------------------------------ *)
(* decomposition of a string into its leading run                                               *)
(* ------------------------------------------------------------------------------------------ *)
Lemma span_word : forall s, exists w rest,
  s = w +++ rest /\ all_chars is_word w = true /\ head_word rest = false.
Proof.
  induction s as [|c s (w & rest & E & Hw & Hr)].
  - now exists EmptyString, EmptyString.
  - destruct (is_word c) eqn:Hc.
    + exists (String c w), rest. simpl. rewrite Hc, Hw, E. auto.
    + exists EmptyString, (String c s). simpl. auto.
Qed.

Lemma span_nonword : forall s, exists nw rest,
  s = nw +++ rest /\ all_chars nonword nw = true /\ (rest = EmptyString \/ head_word rest = true).
Proof.
  induction s as [|c s (w & rest & E & Hw & Hr)].
  - exists EmptyString, EmptyString. auto.
  - destruct (is_word c) eqn:Hc.
    + exists EmptyString, (String c s). simpl. auto.
    + exists (String c w), rest. simpl. unfold nonword at 1. rewrite Hc, Hw, E. auto.
Qed.

(* ------------------------------------------------------------------------------------------ *)
(* the scan, when every name is an identifier                                                   *)
(* ------------------------------------------------------------------------------------------ *)
Definition ident_keys (m : list (string * string)) : Prop := Forall (fun kv => ident (fst kv) = true) m.

Lemma ident_inv : forall p, ident p = true -> exists a p', p = String a p' /\ is_word a = true /\ all_chars is_word p' = true.
Proof.
  intros [|a p'] H; [discriminate|]. simpl in H. apply andb_true_iff in H as [Ha Hp]. now exists a, p'.
Qed.

Lemma prefix_head_mismatch : forall a p' d r, is_word a = true -> is_word d = false ->
  String.prefix (String a p') (String d r) = false.
Proof.
  intros a p' d r Ha Hd. simpl. destruct (ascii_dec a d) as [->|]; [congruence | reflexivity].
Qed.

Lemma prefix_boundary_eqb : forall p w rest,
  all_chars is_word p = true -> all_chars is_word w = true -> head_word rest = false ->
  String.prefix p (w +++ rest) && negb (head_word (drop (String.length p) (w +++ rest))) = String.eqb w p.
Proof.
  induction p as [|a p IH]; intros w rest Hp Hw Hr.
  - destruct w as [|c w]; simpl.
    + destruct rest; simpl in *; [reflexivity | now rewrite Hr].
    + simpl in Hw. apply andb_true_iff in Hw as [Hc _]. now rewrite Hc.
  - simpl in Hp. apply andb_true_iff in Hp as [Ha Hp].
    destruct w as [|c w].
    + cbn [String.append]. destruct rest as [|d r]; [reflexivity|]. simpl in Hr.
      now rewrite prefix_head_mismatch.
    + simpl in Hw. apply andb_true_iff in Hw as [Hc Hw].
      cbn [String.append String.prefix String.length drop String.eqb].
      destruct (ascii_dec a c) as [->|Hne].
      * rewrite Ascii.eqb_refl. now apply IH.
      * destruct (Ascii.eqb c a) eqn:E; [apply Ascii.eqb_eq in E; congruence | reflexivity].
Qed.

Lemma last_word_allword : forall a, all_chars is_word a = true -> last_word true a = true.
Proof.
  induction a as [|c a IH]; intros H; [reflexivity|]. simpl in *. apply andb_true_iff in H as [Hc Ha].
  rewrite Hc. now apply IH.
Qed.

(* at the start of a word [w] (previous character not a word character): the alternative that
   matches is the one whose name is the whole word *)
Lemma first_alt_word : forall m w rest,
  ident_keys m -> ident w = true -> head_word rest = false ->
  first_alt false m false (w +++ rest) = match assoc w m with Some d => Some (w, d) | None => None end.
Proof.
  induction m as [|[p d] m IH]; intros w rest Hm Hw Hr; [reflexivity|].
  inversion Hm as [|? ? Hp Hm']; subst. simpl in Hp.
  cbn [first_alt assoc]. rewrite andb_false_l. cbn [negb]. rewrite andb_true_l.
  assert (Hma : match_at false p (w +++ rest) = String.eqb w p).
  { unfold match_at.
    destruct (ident_inv _ Hp) as (a & p' & -> & Ha & Hp').
    destruct (ident_inv _ Hw) as (c & w' & -> & Hc & Hw').
    assert (Hl : last_word false (String a p') = true) by (simpl; rewrite Ha; now apply last_word_allword).
    rewrite Hl. cbn [String.append head_word]. rewrite Hc. cbn [xorb].
    rewrite andb_true_l.
    change (String c (w' +++ rest)) with (String c w' +++ rest).
    replace (xorb true (head_word (drop (String.length (String a p')) (String c w' +++ rest))))
      with (negb (head_word (drop (String.length (String a p')) (String c w' +++ rest))))
      by (destruct (head_word _); reflexivity).
    apply prefix_boundary_eqb; [simpl; now rewrite Ha | simpl; now rewrite Hc | exact Hr]. }
  rewrite Hma. destruct (String.eqb w p) eqn:E.
  - apply String.eqb_eq in E. now subst.
  - now apply IH.
Qed.

(* inside a word no name can start (no boundary) *)
Lemma match_at_inside_word : forall p c r, is_word c = true -> match_at true p (String c r) = false.
Proof. intros p c r Hc. unfold match_at. simpl. now rewrite Hc. Qed.

Lemma first_alt_inside_word : forall adv m c r, is_word c = true -> first_alt adv m true (String c r) = None.
Proof.
  intros adv m c r Hc. induction m as [|[p d] m IH]; [reflexivity|].
  cbn [first_alt]. rewrite match_at_inside_word by exact Hc. rewrite andb_false_r. exact IH.
Qed.

(* at a non-word character no identifier can start *)
Lemma match_at_nonword : forall pw p c r, ident p = true -> is_word c = false -> match_at pw p (String c r) = false.
Proof.
  intros pw p c r Hp Hc. destruct (ident_inv _ Hp) as (a & p' & -> & Ha & _).
  unfold match_at. rewrite prefix_head_mismatch by assumption. now rewrite andb_false_r.
Qed.

Lemma first_alt_nonword : forall adv m pw c r, ident_keys m -> is_word c = false ->
  first_alt adv m pw (String c r) = None.
Proof.
  intros adv m pw c r Hm Hc. induction m as [|[p d] m IH]; [reflexivity|].
  inversion Hm as [|? ? Hp Hm']; subst. simpl in Hp.
  cbn [first_alt]. rewrite match_at_nonword by assumption. rewrite andb_false_r. now apply IH.
Qed.

Lemma match_at_end : forall pw p, ident p = true -> match_at pw p EmptyString = false.
Proof.
  intros pw p Hp. destruct (ident_inv _ Hp) as (a & p' & -> & _ & _).
  unfold match_at. cbn [String.prefix]. now rewrite andb_false_r.
Qed.

Lemma first_alt_end : forall adv m pw, ident_keys m -> first_alt adv m pw EmptyString = None.
Proof.
  intros adv m pw Hm. induction m as [|[p d] m IH]; [reflexivity|].
  inversion Hm as [|? ? Hp Hm']; subst. simpl in Hp.
  cbn [first_alt]. rewrite match_at_end by assumption. rewrite andb_false_r. now apply IH.
Qed.

Lemma sub_go_skip : forall m a pw rest,
  sub_go m pw (String.length a) (a +++ rest) = sub_go m (last_word pw a) O rest.
Proof.
  induction a as [|x a IH]; intros pw rest.
  - simpl. destruct rest; reflexivity.
  - cbn [String.length String.append sub_go last_word]. apply IH.
Qed.

Lemma sub_go_copy_word : forall m a rest, all_chars is_word a = true ->
  sub_go m true O (a +++ rest) = a +++ sub_go m true O rest.
Proof.
  induction a as [|c a IH]; intros rest Ha; [reflexivity|].
  simpl in Ha. apply andb_true_iff in Ha as [Hc Ha].
  cbn [String.append sub_go]. rewrite first_alt_inside_word by exact Hc. rewrite Hc.
  now rewrite IH.
Qed.

Lemma sub_go_nonword_run : forall m nw pw rest, ident_keys m -> all_chars nonword nw = true ->
  nw <> EmptyString -> sub_go m pw O (nw +++ rest) = nw +++ sub_go m false O rest.
Proof.
  induction nw as [|c nw IH]; intros pw rest Hm Hnw Hne; [congruence|].
  simpl in Hnw. apply andb_true_iff in Hnw as [Hc Hnw]. unfold nonword in Hc. apply negb_true_iff in Hc.
  cbn [String.append sub_go]. rewrite first_alt_nonword by assumption. rewrite Hc.
  destruct nw as [|c2 nw2]; [reflexivity|]. f_equal. apply IH; [assumption | assumption | congruence].
Qed.

Lemma sub_go_word_run : forall m w rest, ident_keys m -> ident w = true -> head_word rest = false ->
  sub_go m false O (w +++ rest) = map_token m w +++ sub_go m true O rest.
Proof.
  intros m w rest Hm Hw Hr.
  pose proof (first_alt_word m w rest Hm Hw Hr) as Hfa.
  destruct (ident_inv _ Hw) as (c & w' & -> & Hc & Hw').
  cbn [String.append] in *. cbn [sub_go]. rewrite Hfa. unfold map_token.
  destruct (assoc (String c w') m) as [d|].
  - rewrite sub_go_skip. rewrite Hc, last_word_allword by exact Hw'. reflexivity.
  - rewrite Hc. cbn [String.append]. f_equal. now apply sub_go_copy_word.
Qed.

Lemma assoc_nonident : forall m t, ident_keys m -> ident t = false -> assoc t m = None.
Proof.
  induction m as [|[p d] m IH]; intros t Hm Ht; [reflexivity|].
  inversion Hm as [|? ? Hp Hm']; subst. simpl in Hp. cbn [assoc].
  destruct (String.eqb t p) eqn:E; [apply String.eqb_eq in E; congruence | now apply IH].
Qed.

Lemma nonword_not_ident : forall nw, all_chars nonword nw = true -> ident nw = false.
Proof.
  intros [|c nw] H; [reflexivity|]. simpl in *. apply andb_true_iff in H as [Hc _].
  unfold nonword in Hc. apply negb_true_iff in Hc. now rewrite Hc.
Qed.

Lemma homog_word : forall w, all_chars is_word w = true -> homog true w = true.
Proof.
  induction w as [|c w IH]; intros H; [reflexivity|]. simpl in *. apply andb_true_iff in H as [Hc Hw].
  unfold homog in *. simpl. rewrite Hc. simpl. now apply IH.
Qed.
Lemma homog_nonword : forall w, all_chars nonword w = true -> homog false w = true.
Proof.
  induction w as [|c w IH]; intros H; [reflexivity|]. simpl in *. apply andb_true_iff in H as [Hc Hw].
  unfold nonword in Hc. apply negb_true_iff in Hc.
  unfold homog in *. simpl. rewrite Hc. simpl. now apply IH.
Qed.

Lemma spec_subst_run : forall m w run rest,
  run <> EmptyString -> homog w run = true ->
  (rest = EmptyString \/ head_word rest = negb w /\ rest <> EmptyString) ->
  spec_subst m (run +++ rest) = map_token m run +++ spec_subst m rest.
Proof.
  intros. unfold spec_subst. erewrite tokenise_run by eassumption. reflexivity.
Qed.

(* the scan equals the specification, from every position at a token boundary *)
Lemma sub_go_is_spec : forall m, ident_keys m -> forall n s pw,
  String.length s <= n -> (pw = true -> head_word s = false) ->
  sub_go m pw O s = spec_subst m s.
Proof.
  intros m Hm. induction n as [|n IH]; intros s pw Hlen Hpw.
  - destruct s; [|simpl in Hlen; lia]. simpl. now rewrite first_alt_end.
  - destruct s as [|c s']; [simpl; now rewrite first_alt_end|].
    destruct (is_word c) eqn:Hc.
    + (* a word starts here *)
      assert (pw = false) by (destruct pw; [specialize (Hpw eq_refl); simpl in Hpw; congruence | reflexivity]).
      subst pw.
      destruct (span_word (String c s')) as (w & rest & E & Hw & Hr).
      destruct w as [|c0 w']; [simpl in E; subst rest; simpl in Hr; congruence|].
      assert (Hid : ident (String c0 w') = true) by exact Hw.
      rewrite E. rewrite sub_go_word_run by assumption.
      rewrite (spec_subst_run m true) ; [| congruence | now apply homog_word |].
      * f_equal. apply IH; [|auto].
        assert (String.length (String c s') = String.length (String c0 w' +++ rest)) by now rewrite E.
        rewrite length_app_str in H. simpl in H, Hlen. lia.
      * destruct rest; [now left | right; split; [exact Hr | congruence]].
    + destruct (span_nonword (String c s')) as (nw & rest & E & Hnw & Hr).
      destruct nw as [|c0 nw']; [simpl in E; subst rest; destruct Hr as [?|Hr]; [congruence | simpl in Hr; congruence]|].
      rewrite E. rewrite sub_go_nonword_run by (assumption || congruence).
      rewrite (spec_subst_run m false); [| congruence | now apply homog_nonword |].
      * unfold map_token. rewrite assoc_nonident by (assumption || now apply nonword_not_ident).
        f_equal. apply IH; [|congruence].
        assert (String.length (String c s') = String.length (String c0 nw' +++ rest)) by now rewrite E.
        rewrite length_app_str in H. simpl in H, Hlen. lia.
      * destruct Hr as [->|Hr]; [now left|]. right. split; [exact Hr|]. destruct rest; [discriminate|congruence].
Qed.

Lemma re_sub_alts_is_spec : forall m s, ident_keys m -> re_sub_alts m s = spec_subst m s.
Proof.
  intros m s Hm. unfold re_sub_alts. apply (sub_go_is_spec m Hm (String.length s)); [lia | discriminate].
Qed.

(* ------------------------------------------------------------------------------------------ *)
(* replace_whole_words: the dictionary keeps the first entry of every name                      *)
(* ------------------------------------------------------------------------------------------ *)
Lemma has_key_assoc : forall k l, has_key k l = match assoc k l with Some _ => true | None => false end.
Proof. induction l as [|[k' v] l IH]; simpl; [reflexivity|]. destruct (String.eqb k k'); [reflexivity | exact IH]. Qed.

Lemma assoc_app : forall k l1 l2,
  assoc k (l1 ++ l2) = match assoc k l1 with Some d => Some d | None => assoc k l2 end.
Proof. induction l1 as [|[k' v] l1 IH]; intros l2; simpl; [reflexivity|]. destruct (String.eqb k k'); [reflexivity | apply IH]. Qed.

Lemma assoc_build_lookup : forall rl acc k,
  assoc k (build_lookup rl acc) = match assoc k acc with Some d => Some d | None => assoc k rl end.
Proof.
  induction rl as [|[src dest] rl IH]; intros acc k; simpl.
  - destruct (assoc k acc); reflexivity.
  - destruct (has_key src acc) eqn:Hk.
    + rewrite IH. destruct (assoc k acc) eqn:Ha; [reflexivity|].
      destruct (String.eqb k src) eqn:E; [|reflexivity].
      apply String.eqb_eq in E. subst. rewrite has_key_assoc, Ha in Hk. discriminate.
    + rewrite IH, assoc_app. destruct (assoc k acc); [reflexivity|]. simpl.
      destruct (String.eqb k src); reflexivity.
Qed.

Lemma build_lookup_ident : forall rl acc, ident_keys rl -> ident_keys acc -> ident_keys (build_lookup rl acc).
Proof.
  induction rl as [|[src dest] rl IH]; intros acc Hrl Hacc; simpl; [exact Hacc|].
  inversion Hrl; subst. destruct (has_key src acc); apply IH; try assumption.
  apply Forall_app. split; [assumption | now constructor].
Qed.

Lemma spec_subst_ext : forall m1 m2 s, (forall k, assoc k m1 = assoc k m2) -> spec_subst m1 s = spec_subst m2 s.
Proof.
  intros m1 m2 s H. unfold spec_subst. f_equal. apply map_ext. intros t. unfold map_token. now rewrite H.
Qed.

Lemma spec_subst_nil : forall s, spec_subst [] s = s.
Proof.
  intros s. unfold spec_subst. rewrite <- (concat_tokenise s) at 2. f_equal.
  rewrite <- (map_id (tokenise s)) at 2. apply map_ext. reflexivity.
Qed.

Theorem impl_subst_is_spec : forall rl line, ident_keys rl -> impl_subst rl line = spec_subst rl line.
Proof.
  intros rl line Hrl. unfold impl_subst.
  assert (Hk : forall k, assoc k (build_lookup rl []) = assoc k rl) by (intro k; now rewrite assoc_build_lookup).
  assert (Hi : ident_keys (build_lookup rl [])) by (apply build_lookup_ident; [assumption | constructor]).
  destruct (build_lookup rl []) as [|e l] eqn:Hb.
  - rewrite <- (spec_subst_ext [] rl line Hk). now rewrite spec_subst_nil.
  - rewrite re_sub_alts_is_spec by exact Hi. now apply spec_subst_ext.
Qed.

(* ------------------------------------------------------------------------------------------ *)
(* the unfixed code: replacement text as a template, names one after the other                  *)
(* ------------------------------------------------------------------------------------------ *)
Definition no_backslash (s : string) : bool := all_chars (fun c => negb (Ascii.eqb c bs)) s.

Lemma tparse_literal : forall repl, no_backslash repl = true ->
  exists items, tparse O repl = OK items /\ forall w, expand items w = repl.
Proof.
  induction repl as [|c r IH]; intros H.
  - exists []. split; reflexivity.
  - unfold no_backslash in H. simpl in H. apply andb_true_iff in H as [Hc Hr].
    destruct (IH Hr) as (items & Hp & He).
    exists (TLit c :: items). cbn [tparse]. apply negb_true_iff in Hc. rewrite Hc, Hp.
    split; [reflexivity|]. intros w. simpl. now rewrite He.
Qed.

(* without a backslash the template is the text itself ... *)
Lemma re_sub_template_literal : forall p repl s, no_backslash repl = true ->
  re_sub_template p repl s = OK (re_sub_alts [(p, repl)] s).
Proof.
  intros p repl s H. unfold re_sub_template. destruct (tparse_literal repl H) as (items & -> & He).
  now rewrite He.
Qed.

(* ... and one name alone is substituted correctly *)
Lemma seq_subst_single : forall p d line, ident p = true -> no_backslash d = true ->
  seq_subst [(p, d)] line = OK (spec_subst [(p, d)] line).
Proof.
  intros p d line Hp Hd. simpl. rewrite re_sub_template_literal by exact Hd.
  rewrite re_sub_alts_is_spec; [reflexivity|]. constructor; [exact Hp | constructor].
Qed.

(* but two names are not: the text put in place of the first is searched for the second *)
Lemma sequential_refuted : exists rl line,
  NoDup (map fst rl) /\ ident_keys rl /\
  (forall d, In d (map snd rl) -> no_backslash d = true) /\
  exists out, seq_subst rl line = OK out /\ out <> spec_subst rl line.
Proof.
  exists [("pt", "i_obj->eta()"); ("eta", "i_obj->pt()")], "auto result = pt*eta;".
  split; [|split; [|split]].
  - repeat constructor; simpl; intuition discriminate.
  - repeat constructor.
  - intros d [<-|[<-|[]]]; reflexivity.
  - eexists. split; [vm_compute; reflexivity|]. vm_compute. discriminate.
Qed.

(* and a backslash in the argument text is interpreted: changed, or the translation raises re.error *)
Lemma template_refuted :
  (exists p d line out, ident p = true /\ seq_subst [(p, d)] line = OK out /\ out <> spec_subst [(p, d)] line) /\
  (exists p d line, ident p = true /\ seq_subst [(p, d)] line = Error re_error).
Proof.
  split.
  - exists "sep", "'\n'", "auto result = sep;". eexists. split; [reflexivity|].
    split; [vm_compute; reflexivity|]. vm_compute. discriminate.
  - exists "path", """C:\data""", "auto result = open(path);". split; reflexivity.
Qed.

(* ------------------------------------------------------------------------------------------ *)
(* build_CPPCodeValue: arity and call style                                                     *)
(* ------------------------------------------------------------------------------------------ *)
Definition arity_ok (sp : cpp_spec) (n : nat) : Prop := n = List.length (sp_args sp).
Definition style_ok (sp : cpp_spec) (style : call_style) : Prop :=
  match style, sp_method_obj sp with
  | StyleFunc, None => True
  | StyleMethod _, Some _ => True
  | _, _ => False
  end.
Definition instance_of (sp : cpp_spec) (style : call_style) : option (string * string) :=
  match style, sp_method_obj sp with
  | StyleMethod r, Some mo => Some (mo, r)
  | _, _ => None
  end.

Lemma build_value_ok : forall sp style n cv,
  build_value sp style n = OK cv ->
  arity_ok sp n /\ style_ok sp style /\
  cv_includes cv = sp_includes sp /\ cv_args cv = sp_args sp /\ cv_code cv = sp_code sp /\
  cv_result cv = sp_result sp /\ cv_rname cv = sp_name sp /\
  cv_rtype cv = result_type_str (sp_rtype sp) (sp_is_coll sp) /\
  cv_instance cv = instance_of sp style /\ cv_libs cv = [] /\ cv_fields cv = [].
Proof.
  intros sp style n cv H. unfold build_value in H.
  destruct (Nat.eqb n (List.length (sp_args sp))) eqn:En; [|discriminate].
  apply Nat.eqb_eq in En. unfold arity_ok, style_ok, instance_of.
  destruct style as [|r], (sp_method_obj sp) as [mo|]; simpl in H; try discriminate;
    injection H as <-; simpl; repeat split; auto.
Qed.

Lemma build_value_accepts : forall sp style n,
  arity_ok sp n -> style_ok sp style -> exists cv, build_value sp style n = OK cv.
Proof.
  intros sp style n Ha Hs. unfold build_value, arity_ok, style_ok in *. subst n. rewrite Nat.eqb_refl.
  destruct style, (sp_method_obj sp); simpl; try contradiction; eexists; reflexivity.
Qed.

Lemma build_value_rejects : forall sp style n e,
  build_value sp style n = Error e -> e = ErrValue /\ ~ (arity_ok sp n /\ style_ok sp style).
Proof.
  intros sp style n e H. unfold build_value in H. unfold arity_ok, style_ok.
  destruct (Nat.eqb n (List.length (sp_args sp))) eqn:En.
  - destruct style, (sp_method_obj sp); simpl in H; try discriminate; injection H as <-; (split; [reflexivity | tauto]).
  - simpl in H. injection H as <-. apply Nat.eqb_neq in En. split; [reflexivity | tauto].
Qed.

(* ------------------------------------------------------------------------------------------ *)
(* process_ast_node                                                                             *)
(* ------------------------------------------------------------------------------------------ *)
Lemma map_result_ok : forall (A B : Type) (f : A -> B) (l : list A), map_result (fun x => OK (f x)) l = OK (map f l).
Proof. induction l as [|x l IH]; simpl; [reflexivity | now rewrite IH]. Qed.

Definition repl_list_of (cv : cpp_value) (recv : string) (reps : list string) : list (string * string) :=
  (match cv_instance cv with Some (mo, _) => [(mo, recv)] | None => [] end) ++ combine (cv_args cv) reps.

Lemma process_node_ok : forall cv recv reps n incs libs,
  exists e, process_node cv recv reps n incs libs = OK e /\
    em_decl e = (cv_rtype cv, unique_name (cv_rname cv) n) /\
    em_result e = unique_name (cv_rname cv) n /\
    em_counter e = S n /\
    em_includes e = add_unique (cv_includes cv) incs /\
    em_libs e = add_unique (cv_libs cv) libs /\
    em_block e = map (fun l => arbitrary_statement (impl_subst (repl_list_of cv recv reps) l)) (cv_code cv)
                 ++ [set_var_line (unique_name (cv_rname cv) n) (cv_result cv)] /\
    em_class_vars e = map fst (cv_fields cv) /\
    List.length (em_book e) = List.length (cv_fields cv).
Proof.
  intros. unfold process_node, process_node_with.
  fold (repl_list_of cv recv reps).
  rewrite (map_result_ok _ _ (impl_subst (repl_list_of cv recv reps))).
  rewrite (map_result_ok _ _ (fun f : (string * string) * string => impl_subst (repl_list_of cv recv reps) (snd f))).
  eexists. split; [reflexivity|]. simpl. repeat split; try reflexivity.
  - now rewrite map_map.
  - now rewrite map_length, combine_length, map_length, Nat.min_id.
Qed.

Lemma mem_str_In : forall x l, mem_str x l = true <-> In x l.
Proof.
  induction l as [|y l IH]; simpl; [split; [discriminate | tauto]|].
  destruct (String.eqb x y) eqn:E.
  - apply String.eqb_eq in E. subst. tauto.
  - apply String.eqb_neq in E. rewrite IH. split; [tauto | intros [H|H]; [congruence | exact H]].
Qed.

Lemma add_unique_In : forall xs have x, In x (add_unique xs have) <-> In x xs \/ In x have.
Proof.
  induction xs as [|y xs IH]; intros have x; simpl; [tauto|].
  rewrite IH. destruct (mem_str y have) eqn:E.
  - apply mem_str_In in E. split; [tauto | intros [[<-|H]|H]; auto].
  - rewrite in_app_iff. simpl. tauto.
Qed.

Lemma NoDup_snoc : forall (l : list string) y, NoDup l -> ~ In y l -> NoDup (l ++ [y]).
Proof.
  induction l as [|x l IH]; intros y Hn Hy; simpl; [constructor; [tauto | constructor]|].
  inversion Hn; subst. constructor.
  - rewrite in_app_iff. simpl in *. intuition.
  - apply IH; [assumption | simpl in Hy; tauto].
Qed.

Lemma add_unique_NoDup : forall xs have, NoDup have -> NoDup (add_unique xs have).
Proof.
  induction xs as [|y xs IH]; intros have H; simpl; [exact H|].
  apply IH. destruct (mem_str y have) eqn:E; [exact H|].
  assert (~ In y have) by (rewrite <- mem_str_In; congruence).
  now apply NoDup_snoc.
Qed.

Lemma add_unique_prefix : forall xs have, exists more, add_unique xs have = have ++ more.
Proof.
  induction xs as [|y xs IH]; intros have; simpl; [exists []; now rewrite app_nil_r|].
  destruct (mem_str y have); [apply IH|].
  destruct (IH (have ++ [y])) as (more & ->). exists (y :: more). now rewrite <- app_assoc.
Qed.

Lemma ident_keys_combine : forall ps reps, Forall (fun p => ident p = true) ps -> ident_keys (combine ps reps).
Proof.
  induction ps as [|p ps IH]; intros reps H; [constructor|].
  destruct reps as [|r reps]; [constructor|]. inversion H; subst. constructor; [assumption | now apply IH].
Qed.

(* the binding of formal names the property speaks about: method object -> receiver, parameters -> arguments *)
Definition binding (sp : cpp_spec) (style : call_style) (recv : string) (reps : list string) : list (string * string) :=
  (match instance_of sp style with Some (mo, _) => [(mo, recv)] | None => [] end) ++ combine (sp_args sp) reps.

Theorem call_site_correct : forall sp style recv reps n incs libs cv,
  build_value sp style (List.length reps) = OK cv ->
  Forall (fun p => ident p = true) (sp_args sp) ->
  (forall mo, sp_method_obj sp = Some mo -> ident mo = true) ->
  exists e, process_node cv recv reps n incs libs = OK e /\
    let rvar := unique_name (sp_name sp) n in
    let rtype := result_type_str (sp_rtype sp) (sp_is_coll sp) in
    (* every parameter has its argument *)
    List.length (sp_args sp) = List.length reps /\
    (* the block: each code line with all names substituted simultaneously, then the result hand-over *)
    em_block e = map (fun l => arbitrary_statement (spec_subst (binding sp style recv reps) l)) (sp_code sp)
                 ++ [rvar +++ " = " +++ sp_result sp +++ ";"] /\
    (* result variable: declared type, declared in the enclosing scope, returned, counter advanced *)
    em_decl e = (rtype, rvar) /\ em_result e = rvar /\ em_counter e = S n /\
    (* the enclosing scope renders as: declaration first, then the code in its own block *)
    render_call e = ["{"; rtype +++ " " +++ rvar +++ ";"; "{"] ++ em_block e ++ ["}"; "}"] /\
    (* include files: all of the specification's, nothing lost, nothing else *)
    (forall i, In i (em_includes e) <-> In i (sp_includes sp) \/ In i incs) /\
    (exists more, em_includes e = incs ++ more) /\ em_libs e = libs.
Proof.
  intros sp style recv reps n incs libs cv Hb Hargs Hmo.
  destruct (build_value_ok _ _ _ _ Hb) as (Har & Hst & Hi & Ha & Hc & Hr & Hn & Ht & Hinst & Hl & Hf).
  destruct (process_node_ok cv recv reps n incs libs) as (e & He & Hd & Hres & Hcnt & Hinc & Hlib & Hblk & _ & _).
  exists e. split; [exact He|]. cbn zeta.
  assert (Hbind : repl_list_of cv recv reps = binding sp style recv reps).
  { unfold repl_list_of, binding. now rewrite Hinst, Ha. }
  assert (Hik : ident_keys (binding sp style recv reps)).
  { unfold binding. apply Forall_app. split; [|now apply ident_keys_combine].
    unfold instance_of. destruct style as [|r]; [constructor|].
    destruct (sp_method_obj sp) as [mo|] eqn:E; [|constructor].
    constructor; [simpl; now apply Hmo | constructor]. }
  rewrite Hn, Ht in *. rewrite Hr, Hc, Hbind in Hblk.
  split; [symmetry; exact Har|].
  split.
  { rewrite Hblk. f_equal. apply map_ext. intros l. now rewrite impl_subst_is_spec. }
  split; [exact Hd|]. split; [exact Hres|]. split; [exact Hcnt|].
  split; [unfold render_call; now rewrite Hd|].
  split; [intros i; rewrite Hinc, Hi; apply add_unique_In|].
  split; [rewrite Hinc; apply add_unique_prefix|].
  rewrite Hlib, Hl. reflexivity.
Qed.

(* ------------------------------------------------------------------------------------------ *)
(* unique_name                                                                                  *)
(* ------------------------------------------------------------------------------------------ *)
Lemma digit_char_parse : forall d acc a, (d < 10)%nat ->
  parse_N_acc (String (digit_char d) acc) a = parse_N_acc acc (a * 10 + N.of_nat d)%N.
Proof.
  intros d acc a Hd.
  do 10 (destruct d as [|d]; [reflexivity|]). lia.
Qed.

Lemma parse_dec_fuel : forall f n acc, (n < 2 ^ N.of_nat f)%N ->
  exists m, forall a, parse_N_acc (dec_N_fuel (S f) n acc) a = parse_N_acc acc (a * m + n)%N.
Proof.
  induction f as [|f IH]; intros n acc Hn.
  - assert (n = 0%N) by (simpl in Hn; lia). subst. exists 10%N. intros a. simpl.
    rewrite N.add_0_r. reflexivity.
  - pose proof (N.div_mod n 10 ltac:(lia)) as Hdm.
    pose proof (N.mod_lt n 10 ltac:(lia)) as Hlt.
    cbn [dec_N_fuel].
    destruct (N.eqb (n / 10) 0) eqn:Eq.
    + apply N.eqb_eq in Eq. exists 10%N. intros a. rewrite digit_char_parse by lia.
      f_equal. rewrite N2Nat.id. lia.
    + apply N.eqb_neq in Eq.
      assert (Hq : (n / 10 < 2 ^ N.of_nat f)%N).
      { rewrite Nat2N.inj_succ, N.pow_succ_r' in Hn.
        remember (2 ^ N.of_nat f)%N as t. remember (n / 10)%N as q. remember (n mod 10)%N as r.
        clear - Hn Hdm Hlt. lia. }
      destruct (IH (n / 10)%N (String (digit_char (N.to_nat (n mod 10))) acc) Hq) as (m & Hm).
      exists (m * 10)%N. intros a. rewrite Hm. rewrite digit_char_parse by lia.
      f_equal. rewrite N2Nat.id. lia.
Qed.

Lemma parse_dec_N : forall n, parse_N_acc (dec_N n) 0 = Some n.
Proof.
  intros n. unfold dec_N.
  destruct (parse_dec_fuel (N.to_nat (N.size n)) n EmptyString) as (m & Hm).
  - rewrite N2Nat.id. apply N.size_gt.
  - rewrite Hm. reflexivity.
Qed.

Lemma dec_nat_inj : forall a b, dec_nat a = dec_nat b -> a = b.
Proof.
  intros a b H. unfold dec_nat in H.
  assert (Some (N.of_nat a) = Some (N.of_nat b)) by (rewrite <- !parse_dec_N; now rewrite H).
  injection H0 as H0. now apply Nat2N.inj.
Qed.

(* two calls of the same function never share a result variable *)
Theorem unique_name_fresh : forall base n1 n2, unique_name base n1 = unique_name base n2 -> n1 = n2.
Proof. intros base n1 n2 H. unfold unique_name in H. apply app_inv_head_str in H. now apply dec_nat_inj. Qed.

(* ... but two different functions can, when one name ends in a digit *)
Lemma unique_name_collision : exists b1 b2 n1 n2, b1 <> b2 /\ n1 <> n2 /\ unique_name b1 n1 = unique_name b2 n2.
Proof. exists "F12", "F1", 1, 21. split; [discriminate|]. split; [discriminate|]. vm_compute. reflexivity. Qed.

(* text none of whose tokens is a formal name is left alone, character for character *)
Lemma subst_untouched : forall rl line, ident_keys rl ->
  (forall t, In t (tokenise line) -> assoc t rl = None) -> impl_subst rl line = line.
Proof.
  intros rl line Hk Hn. rewrite impl_subst_is_spec by exact Hk. unfold spec_subst.
  rewrite <- (concat_tokenise line) at 2. f_equal.
  rewrite <- (map_id (tokenise line)) at 2. apply map_ext_in. intros t Ht. unfold map_token. now rewrite Hn.
Qed.

(* each token is mapped on its own: a token that is not exactly a formal name stays, a token that is
   one becomes the argument text verbatim (whatever that text contains) *)
Lemma subst_tokenwise : forall rl line, ident_keys rl ->
  exists outs, impl_subst rl line = concat_str outs /\
    Forall2 (fun t o => match assoc t rl with Some d => o = d | None => o = t end) (tokenise line) outs.
Proof.
  intros rl line Hk. exists (map (map_token rl) (tokenise line)). split.
  - now rewrite impl_subst_is_spec.
  - induction (tokenise line) as [|t ts IH]; simpl; constructor; [|exact IH].
    unfold map_token. destruct (assoc t rl); reflexivity.
Qed.

Lemma tokens_are_maximal_runs : forall s,
  concat_str (tokenise s) = s /\
  Forall (fun t => t <> EmptyString /\ homog (head_word t) t = true) (tokenise s) /\
  alternating (tokenise s).
Proof. intro s. split; [apply concat_tokenise | apply tokenise_tokens_ok]. Qed.
