(* Base definitions shared by every model: strings, results, S-expressions used as the
   wire format between the Python harness and the extracted models. No proofs here. *)
From Coq Require Export List String Ascii ZArith Bool Arith Lia.
Export ListNotations.
Open Scope string_scope.
Open Scope list_scope.
Infix "+++" := String.append (at level 60, right associativity).

(* Python exception classes the models distinguish. *)
Inductive err :=
| ErrValue | ErrRuntime | ErrAssert | ErrNotImpl | ErrKey | ErrType | ErrAttr | ErrIndex
| ErrTranslation | ErrOutOfFuel | ErrOther (tag : string).

Inductive result (A : Type) := OK (a : A) | Error (e : err).
Arguments OK {A} a.
Arguments Error {A} e.

Definition bind {A B} (r : result A) (f : A -> result B) : result B :=
  match r with OK a => f a | Error e => Error e end.
Notation "'do' x <- r ; k" := (bind r (fun x => k)) (at level 200, x name, r at level 100, k at level 200).
Notation "'do' ' p <- r ; k" := (bind r (fun x => let 'p := x in k))
  (at level 200, p pattern, r at level 100, k at level 200).

Definition err_name (e : err) : string :=
  match e with
  | ErrValue => "ValueError" | ErrRuntime => "RuntimeError" | ErrAssert => "AssertionError"
  | ErrNotImpl => "NotImplementedError" | ErrKey => "KeyError" | ErrType => "TypeError"
  | ErrAttr => "AttributeError" | ErrIndex => "IndexError"
  | ErrTranslation => "xAODTranslationError" | ErrOutOfFuel => "OutOfFuel"
  | ErrOther t => t
  end.

(* ---------- strings ---------- *)
Definition str_eqb := String.eqb.
Fixpoint mem_str (x : string) (l : list string) : bool :=
  match l with [] => false | y :: r => if String.eqb x y then true else mem_str x r end.
Fixpoint list_str_eqb (a b : list string) : bool :=
  match a, b with
  | [], [] => true
  | x :: a', y :: b' => String.eqb x y && list_str_eqb a' b'
  | _, _ => false
  end.
Fixpoint concat_str (l : list string) : string :=
  match l with [] => "" | x :: r => x +++ concat_str r end.
Fixpoint join_str (sep : string) (l : list string) : string :=
  match l with [] => "" | [x] => x | x :: r => x +++ sep +++ join_str sep r end.

Definition digit_char (n : nat) : ascii := ascii_of_nat (48 + n).
(* decimal printing of N / Z, structurally on fuel = number of binary digits + 1 *)
Fixpoint dec_N_fuel (fuel : nat) (n : N) (acc : string) : string :=
  match fuel with
  | O => acc
  | S f =>
    let d := N.to_nat (N.modulo n 10) in
    let acc' := String (digit_char d) acc in
    if N.eqb (N.div n 10) 0 then acc' else dec_N_fuel f (N.div n 10) acc'
  end.
Definition dec_N (n : N) : string := dec_N_fuel (S (N.to_nat (N.size n))) n "".
Definition dec_Z (z : Z) : string :=
  match z with Z0 => "0" | Zpos p => dec_N (Npos p) | Zneg p => "-" +++ dec_N (Npos p) end.
Definition dec_nat (n : nat) : string := dec_N (N.of_nat n).

Definition is_digit (c : ascii) : bool :=
  let n := nat_of_ascii c in (48 <=? n)%nat && (n <=? 57)%nat.
Fixpoint parse_N_acc (s : string) (acc : N) : option N :=
  match s with
  | EmptyString => Some acc
  | String c r => if is_digit c then parse_N_acc r (acc * 10 + N.of_nat (nat_of_ascii c - 48))%N else None
  end.
Definition parse_N (s : string) : option N :=
  match s with EmptyString => None | _ => parse_N_acc s 0%N end.
Definition parse_Z (s : string) : option Z :=
  match s with
  | String "-"%char r => option_map (fun n => Z.opp (Z.of_N n)) (parse_N r)
  | _ => option_map Z.of_N (parse_N s)
  end.

(* ---------- S-expressions (wire format) ---------- *)
Inductive sexp := SAtom (s : string) | SList (l : list sexp).

Definition s_str (s : string) : sexp := SAtom s.
Definition s_strs (l : list string) : sexp := SList (map SAtom l).
Definition s_Z (z : Z) : sexp := SAtom (dec_Z z).
Definition s_nat (n : nat) : sexp := SAtom (dec_nat n).
(* cpp_vars.unique_name for a class variable: every character of the (user-supplied) name that cannot be part of a C++
   identifier becomes "_" - one "_" per CHARACTER: in the UTF-8 bytes of the name a lead byte gives "_" and the
   continuation bytes that follow it give nothing (a continuation byte that follows nothing gives "_") *)
Definition ident_char (c : ascii) : bool :=
  let n := nat_of_ascii c in
  (((48 <=? n) && (n <=? 57)) || ((65 <=? n) && (n <=? 90)) || ((97 <=? n) && (n <=? 122)) || (n =? 95))%nat.
Fixpoint cident_aux (in_seq : bool) (s : string) : string :=
  match s with
  | EmptyString => EmptyString
  | String c r =>
      let n := nat_of_ascii c in
      if (n <? 128)%nat then String (if ident_char c then c else "_"%char) (cident_aux false r)
      else if (n <? 192)%nat then (if in_seq then cident_aux true r else String "_"%char (cident_aux false r))
      else String "_"%char (cident_aux true r)
  end.
Definition cident (s : string) : string := cident_aux false s.

Definition s_bool (b : bool) : sexp := SAtom (if b then "true" else "false").
Definition s_tag (t : string) (l : list sexp) : sexp := SList (SAtom t :: l).
Definition s_err (e : err) : sexp := s_tag "error" [SAtom (err_name e)].
Definition s_result {A} (enc : A -> sexp) (r : result A) : sexp :=
  match r with OK a => s_tag "ok" [enc a] | Error e => s_err e end.

Definition d_str (s : sexp) : option string := match s with SAtom a => Some a | _ => None end.
Fixpoint d_list {A} (d : sexp -> option A) (l : list sexp) : option (list A) :=
  match l with
  | [] => Some []
  | x :: r => match d x, d_list d r with Some a, Some r' => Some (a :: r') | _, _ => None end
  end.
Definition d_strs (s : sexp) : option (list string) :=
  match s with SList l => d_list d_str l | _ => None end.
Definition d_Z (s : sexp) : option Z := match s with SAtom a => parse_Z a | _ => None end.
Definition d_nat (s : sexp) : option nat := option_map Z.to_nat (d_Z s).
Definition d_bool (s : sexp) : option bool :=
  match s with SAtom "true" => Some true | SAtom "false" => Some false | _ => None end.

Definition bad_input : sexp := s_tag "bad-input" [].
