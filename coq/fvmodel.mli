
val negb : bool -> bool

type nat =
| O
| S of nat

val option_map : ('a1 -> 'a2) -> 'a1 option -> 'a2 option

val fst : ('a1 * 'a2) -> 'a1

val snd : ('a1 * 'a2) -> 'a2

val length : 'a1 list -> nat

val app : 'a1 list -> 'a1 list -> 'a1 list

type comparison =
| Eq
| Lt
| Gt

val compOpp : comparison -> comparison

val add : nat -> nat -> nat

val sub : nat -> nat -> nat

type positive =
| XI of positive
| XO of positive
| XH

type n =
| N0
| Npos of positive

type z =
| Z0
| Zpos of positive
| Zneg of positive

module Nat :
 sig
  val leb : nat -> nat -> bool

  val ltb : nat -> nat -> bool
 end

module Pos :
 sig
  type mask =
  | IsNul
  | IsPos of positive
  | IsNeg
 end

module Coq_Pos :
 sig
  val succ : positive -> positive

  val add : positive -> positive -> positive

  val add_carry : positive -> positive -> positive

  val pred_double : positive -> positive

  type mask = Pos.mask =
  | IsNul
  | IsPos of positive
  | IsNeg

  val succ_double_mask : mask -> mask

  val double_mask : mask -> mask

  val double_pred_mask : positive -> mask

  val sub_mask : positive -> positive -> mask

  val sub_mask_carry : positive -> positive -> mask

  val mul : positive -> positive -> positive

  val size : positive -> positive

  val compare_cont : comparison -> positive -> positive -> comparison

  val compare : positive -> positive -> comparison

  val eqb : positive -> positive -> bool

  val iter_op : ('a1 -> 'a1 -> 'a1) -> positive -> 'a1 -> 'a1

  val to_nat : positive -> nat

  val of_succ_nat : nat -> positive
 end

module N :
 sig
  val succ_double : n -> n

  val double : n -> n

  val add : n -> n -> n

  val sub : n -> n -> n

  val mul : n -> n -> n

  val compare : n -> n -> comparison

  val eqb : n -> n -> bool

  val leb : n -> n -> bool

  val size : n -> n

  val pos_div_eucl : positive -> n -> n * n

  val div_eucl : n -> n -> n * n

  val div : n -> n -> n

  val modulo : n -> n -> n

  val to_nat : n -> nat

  val of_nat : nat -> n
 end

val zero : char

val one : char

val shift : bool -> char -> char

val ascii_of_pos : positive -> char

val ascii_of_N : n -> char

val ascii_of_nat : nat -> char

val n_of_digits : bool list -> n

val n_of_ascii : char -> n

val nat_of_ascii : char -> nat

val rev : 'a1 list -> 'a1 list

val map : ('a1 -> 'a2) -> 'a1 list -> 'a2 list

val existsb : ('a1 -> bool) -> 'a1 list -> bool

val forallb : ('a1 -> bool) -> 'a1 list -> bool

val skipn : nat -> 'a1 list -> 'a1 list

module Z :
 sig
  val double : z -> z

  val succ_double : z -> z

  val pred_double : z -> z

  val pos_sub : positive -> positive -> z

  val add : z -> z -> z

  val opp : z -> z

  val sub : z -> z -> z

  val compare : z -> z -> comparison

  val ltb : z -> z -> bool

  val to_nat : z -> nat

  val of_nat : nat -> z

  val of_N : n -> z
 end

val eqb0 : char list -> char list -> bool

val append : char list -> char list -> char list

val string_of_list_ascii : char list -> char list

val list_ascii_of_string : char list -> char list

type err =
| ErrValue
| ErrRuntime
| ErrAssert
| ErrNotImpl
| ErrKey
| ErrType
| ErrAttr
| ErrIndex
| ErrTranslation
| ErrOutOfFuel
| ErrOther of char list

type 'a result =
| OK of 'a
| Error of err

val bind : 'a1 result -> ('a1 -> 'a2 result) -> 'a2 result

val err_name : err -> char list

val mem_str : char list -> char list list -> bool

val list_str_eqb : char list list -> char list list -> bool

val join_str : char list -> char list list -> char list

val digit_char : nat -> char

val dec_N_fuel : nat -> n -> char list -> char list

val dec_N : n -> char list

val dec_Z : z -> char list

val dec_nat : nat -> char list

val is_digit : char -> bool

val parse_N_acc : char list -> n -> n option

val parse_N : char list -> n option

val parse_Z : char list -> z option

type sexp =
| SAtom of char list
| SList of sexp list

val s_str : char list -> sexp

val s_strs : char list list -> sexp

val s_Z : z -> sexp

val s_nat : nat -> sexp

val s_bool : bool -> sexp

val s_tag : char list -> sexp list -> sexp

val s_err : err -> sexp

val s_result : ('a1 -> sexp) -> 'a1 result -> sexp

val d_str : sexp -> char list option

val d_list : (sexp -> 'a1 option) -> sexp list -> 'a1 list option

val d_strs : sexp -> char list list option

val d_Z : sexp -> z option

val d_nat : sexp -> nat option

val bad_input : sexp

type jblock = { jb_name : char list; jb_script : char list list;
                jb_deps : char list list }

type entry = char list * (char list list * char list list)

type table = entry list

val tget : char list -> table -> (char list list * char list list) option

val textend : char list -> char list list -> table -> table

val step1 : table -> jblock -> table result

val phase1 : jblock list -> table -> table result

val has_key : char list -> table -> bool

val deps_present : table -> bool

val one_pass :
  table -> char list list -> char list list -> bool -> (char list
  list * char list list) * bool

val emit_loop :
  nat -> table -> char list list -> char list list -> char list list result

val gen : jblock list -> char list list result

val d_jblock : sexp -> jblock option

val run_gen : sexp -> sexp

type mrow = { m_py : char list; m_cpp : char list; m_inc : char list list;
              m_ret : char list }

type menv = { e_rows : mrow list; e_module : char list list;
              e_builtins : (char list * char list) list }

val lookup_row : char list -> mrow list -> mrow option

val assoc : char list -> (char list * char list) list -> char list option

type resolution =
| RName of char list
| RCrash

val resolve : menv -> char list -> resolution

val find_row : menv -> char list -> mrow option

val acceptable : char list -> char list -> bool

val cmath_sig : (char list * (nat * bool)) list

val sig_of :
  char list -> (char list * (nat * bool)) list -> (nat * bool) option

val callable_from_query : char list -> bool

val doc_ok : menv -> char list -> bool

val s_row : mrow -> sexp

val audit : menv -> char list list -> sexp

val math_rows : mrow list

val module_names : char list list

val builtin_names : (char list * char list) list

val documented : char list list

val math_env : menv

type chars = char list

val to_chars : char list -> chars

val of_chars : chars -> char list

val is_ws : char -> bool

val is_star : char -> bool

val lstrip : chars -> chars

val strip_stars_rev : chars -> chars * nat

val prefix_chars : chars -> chars -> bool

val const_kw : chars

type parsed = { p_name : char list; p_depth : nat; p_const : bool }

val parse_chars : chars -> (chars * nat) * bool

val parse_type : char list -> parsed

val stars : nat -> char list

val str_parsed : parsed -> char list

type terminal = { t_type : char list; t_depth : nat; t_const : bool;
                  t_tree : char list option }

val mk_term : char list -> nat -> terminal

val term_of_parsed : parsed -> terminal

val str_terminal : terminal -> char list

val tree_type : terminal -> terminal

type cpptype =
| TTerm of terminal
| TColl of terminal * terminal

val view : cpptype -> terminal

val is_coll : cpptype -> bool

val vector_of : terminal -> cpptype

type minfo = { mi_type : cpptype; mi_deref : z }

type mkey = char list * char list

val mkey_eqb : mkey -> mkey -> bool

type mreg = (mkey * minfo) list

val add_method : mreg -> char list -> char list -> minfo -> mreg

val method_type_info : mreg -> char list -> char list -> minfo option

val is_dot : char -> bool

val split_dot_aux : char list -> char list -> char list list

val split_dot : char list -> char list list

val replace_dot : char list -> char list

type enum_def = { en_path : char list list; en_name : char list;
                  en_values : char list list }

type ereg = enum_def list

val is_prefix : char list list -> char list list -> bool

val ns_exists : ereg -> char list list -> bool

val find_enum : ereg -> char list list -> char list -> enum_def option

val define_enum : ereg -> char list -> char list -> char list list -> ereg

val ns_full_name : char list list -> char list

val enum_full_name : enum_def -> char list

val value_as_cpp : enum_def -> char list -> char list

type method_md = { md_type_string : char list option;
                   md_method_name : char list option;
                   md_return_type : char list option;
                   md_elem : char list option; md_coll : char list option;
                   md_tree : char list option; md_deref : z option }

type md_item =
| MdMethod of method_md
| MdEnum of char list * char list * char list list
| MdOther

type registry = { r_methods : mreg; r_enums : ereg }

val empty_registry : registry

val md_return : method_md -> cpptype result

val md_method : mreg -> method_md -> mreg result

val md_step : registry -> md_item -> registry result

val process_md : registry -> md_item list -> registry result

val wrap_deref : nat -> char list -> char list

val member_access : char list -> nat -> z -> char list

val base_types : char list list

val warn_text : char list -> char list -> char list

val determine_type_mf :
  mreg -> terminal -> char list -> (minfo * char list list) result

type vkind =
| KValue
| KColl
| KEnumVal

type rep =
| RVal of char list * cpptype * vkind
| RNs of char list list
| REnum of enum_def

type arg =
| ALit of char list
| AName of char list * char list list

type step =
| SCall of char list * arg list
| SAttr of char list
| SIndex of char list

type 'a out = ('a * char list list) result

val do_attr : registry -> rep -> char list -> rep out

val do_attrs : registry -> rep -> char list list -> rep out

val rep_as_cpp : rep -> char list result

val do_arg : registry -> arg -> char list out

val do_args : registry -> arg list -> char list list out

val do_call : registry -> rep -> char list -> arg list -> rep out

val do_index : rep -> char list -> rep out

val do_step : registry -> rep -> step -> rep out

val do_steps : registry -> rep -> step list -> rep out

val dereference_once : char list -> terminal -> char list

val do_iter : rep -> char list -> (char list * rep) result

type prog = { pg_levels : step list list; pg_last : step list;
              pg_vec : step list option }

type emitted = { em_loops : char list list; em_decl : char list;
                 em_stmt : char list; em_warn : char list list }

val it_name : nat -> char list

val do_levels :
  registry -> rep -> nat -> step list list -> (((rep * nat) * char list
  list) * char list list) result

val column_value : char list -> cpptype -> char list * char list

val column_vector : char list -> cpptype -> char list * char list

val translate : registry -> rep -> prog -> emitted result

val run_query :
  md_item list -> char list -> char list -> nat -> prog -> emitted result

val s_parsed : parsed -> sexp

val run_parse : sexp -> sexp

val run_access : sexp -> sexp

val d_opt : (sexp -> 'a1 option) -> sexp -> 'a1 option option

val s_opt : ('a1 -> sexp) -> 'a1 option -> sexp

val s_terminal : terminal -> sexp

val s_cpptype : cpptype -> sexp

val d_md : sexp -> md_item option

val d_mds : sexp -> md_item list option

val run_lookup : sexp -> sexp

val run_enum : sexp -> sexp

val d_arg : sexp -> arg option

val d_step : sexp -> step option

val d_steps : sexp -> step list option

val d_prog : sexp -> prog option

val s_emitted : emitted -> sexp

val run_translate : sexp -> sexp

val dispatch : char list -> sexp -> sexp
