
val negb : bool -> bool

type nat =
| O
| S of nat

val snd : ('a1 * 'a2) -> 'a2

val length : 'a1 list -> nat

val app : 'a1 list -> 'a1 list -> 'a1 list

module Nat :
 sig
  val leb : nat -> nat -> bool

  val ltb : nat -> nat -> bool
 end

val map : ('a1 -> 'a2) -> 'a1 list -> 'a2 list

val forallb : ('a1 -> bool) -> 'a1 list -> bool

val eqb : char list -> char list -> bool

type err =
| ErrValue
| ErrRuntime
| ErrAssert
| ErrNotImpl
| ErrKey
| ErrType
| ErrAttr
| ErrIndex
| ErrTranslation
| ErrOutOfFuel
| ErrOther of char list

type 'a result =
| OK of 'a
| Error of err

val err_name : err -> char list

val mem_str : char list -> char list list -> bool

val list_str_eqb : char list list -> char list list -> bool

type sexp =
| SAtom of char list
| SList of sexp list

val s_strs : char list list -> sexp

val s_tag : char list -> sexp list -> sexp

val s_err : err -> sexp

val s_result : ('a1 -> sexp) -> 'a1 result -> sexp

val d_str : sexp -> char list option

val d_list : (sexp -> 'a1 option) -> sexp list -> 'a1 list option

val d_strs : sexp -> char list list option

val bad_input : sexp

type jblock = { jb_name : char list; jb_script : char list list;
                jb_deps : char list list }

type entry = char list * (char list list * char list list)

type table = entry list

val tget : char list -> table -> (char list list * char list list) option

val textend : char list -> char list list -> table -> table

val step1 : table -> jblock -> table result

val phase1 : jblock list -> table -> table result

val has_key : char list -> table -> bool

val deps_present : table -> bool

val one_pass :
  table -> char list list -> char list list -> bool -> (char list
  list * char list list) * bool

val emit_loop :
  nat -> table -> char list list -> char list list -> char list list result

val gen : jblock list -> char list list result

val d_jblock : sexp -> jblock option

val run_gen : sexp -> sexp

val dispatch : char list -> sexp -> sexp
