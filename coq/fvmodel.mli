
val negb : bool -> bool

type nat =
| O
| S of nat

val option_map : ('a1 -> 'a2) -> 'a1 option -> 'a2 option

val fst : ('a1 * 'a2) -> 'a1

val snd : ('a1 * 'a2) -> 'a2

val length : 'a1 list -> nat

val app : 'a1 list -> 'a1 list -> 'a1 list

type comparison =
| Eq
| Lt
| Gt

val add : nat -> nat -> nat

val sub : nat -> nat -> nat

type positive =
| XI of positive
| XO of positive
| XH

type n =
| N0
| Npos of positive

type z =
| Z0
| Zpos of positive
| Zneg of positive

module Nat :
 sig
  val eqb : nat -> nat -> bool

  val leb : nat -> nat -> bool

  val ltb : nat -> nat -> bool
 end

module Pos :
 sig
  type mask =
  | IsNul
  | IsPos of positive
  | IsNeg
 end

module Coq_Pos :
 sig
  val succ : positive -> positive

  val add : positive -> positive -> positive

  val add_carry : positive -> positive -> positive

  val pred_double : positive -> positive

  type mask = Pos.mask =
  | IsNul
  | IsPos of positive
  | IsNeg

  val succ_double_mask : mask -> mask

  val double_mask : mask -> mask

  val double_pred_mask : positive -> mask

  val sub_mask : positive -> positive -> mask

  val sub_mask_carry : positive -> positive -> mask

  val mul : positive -> positive -> positive

  val size : positive -> positive

  val compare_cont : comparison -> positive -> positive -> comparison

  val compare : positive -> positive -> comparison

  val eqb : positive -> positive -> bool

  val iter_op : ('a1 -> 'a1 -> 'a1) -> positive -> 'a1 -> 'a1

  val to_nat : positive -> nat

  val of_succ_nat : nat -> positive
 end

module N :
 sig
  val succ_double : n -> n

  val double : n -> n

  val add : n -> n -> n

  val sub : n -> n -> n

  val mul : n -> n -> n

  val compare : n -> n -> comparison

  val eqb : n -> n -> bool

  val leb : n -> n -> bool

  val size : n -> n

  val pos_div_eucl : positive -> n -> n * n

  val div_eucl : n -> n -> n * n

  val div : n -> n -> n

  val modulo : n -> n -> n

  val to_nat : n -> nat

  val of_nat : nat -> n
 end

val zero : char

val one : char

val shift : bool -> char -> char

val ascii_of_pos : positive -> char

val ascii_of_N : n -> char

val ascii_of_nat : nat -> char

val n_of_digits : bool list -> n

val n_of_ascii : char -> n

val nat_of_ascii : char -> nat

val hd : 'a1 -> 'a1 list -> 'a1

val nth : nat -> 'a1 list -> 'a1 -> 'a1

val last : 'a1 list -> 'a1 -> 'a1

val removelast : 'a1 list -> 'a1 list

val map : ('a1 -> 'a2) -> 'a1 list -> 'a2 list

val flat_map : ('a1 -> 'a2 list) -> 'a1 list -> 'a2 list

val fold_left : ('a1 -> 'a2 -> 'a1) -> 'a2 list -> 'a1 -> 'a1

val existsb : ('a1 -> bool) -> 'a1 list -> bool

val forallb : ('a1 -> bool) -> 'a1 list -> bool

val skipn : nat -> 'a1 list -> 'a1 list

module Z :
 sig
  val opp : z -> z

  val to_nat : z -> nat

  val of_N : n -> z
 end

val eqb0 : char list -> char list -> bool

val append : char list -> char list -> char list

type err =
| ErrValue
| ErrRuntime
| ErrAssert
| ErrNotImpl
| ErrKey
| ErrType
| ErrAttr
| ErrIndex
| ErrTranslation
| ErrOutOfFuel
| ErrOther of char list

type 'a result =
| OK of 'a
| Error of err

val err_name : err -> char list

val mem_str : char list -> char list list -> bool

val list_str_eqb : char list list -> char list list -> bool

val concat_str : char list list -> char list

val join_str : char list -> char list list -> char list

val digit_char : nat -> char

val dec_N_fuel : nat -> n -> char list -> char list

val dec_N : n -> char list

val dec_nat : nat -> char list

val is_digit : char -> bool

val parse_N_acc : char list -> n -> n option

val parse_N : char list -> n option

val parse_Z : char list -> z option

type sexp =
| SAtom of char list
| SList of sexp list

val s_strs : char list list -> sexp

val s_nat : nat -> sexp

val s_bool : bool -> sexp

val s_tag : char list -> sexp list -> sexp

val s_err : err -> sexp

val s_result : ('a1 -> sexp) -> 'a1 result -> sexp

val d_str : sexp -> char list option

val d_list : (sexp -> 'a1 option) -> sexp list -> 'a1 list option

val d_strs : sexp -> char list list option

val d_Z : sexp -> z option

val d_nat : sexp -> nat option

val d_bool : sexp -> bool option

val bad_input : sexp

type jblock = { jb_name : char list; jb_script : char list list;
                jb_deps : char list list }

type entry = char list * (char list list * char list list)

type table = entry list

val tget : char list -> table -> (char list list * char list list) option

val textend : char list -> char list list -> table -> table

val step1 : table -> jblock -> table result

val phase1 : jblock list -> table -> table result

val has_key : char list -> table -> bool

val deps_present : table -> bool

val one_pass :
  table -> char list list -> char list list -> bool -> (char list
  list * char list list) * bool

val emit_loop :
  nat -> table -> char list list -> char list list -> char list list result

val gen : jblock list -> char list list result

val d_jblock : sexp -> jblock option

val run_gen : sexp -> sexp

type mrow = { m_py : char list; m_cpp : char list; m_inc : char list list;
              m_ret : char list }

type menv = { e_rows : mrow list; e_module : char list list;
              e_builtins : (char list * char list) list }

val lookup_row : char list -> mrow list -> mrow option

val assoc : char list -> (char list * char list) list -> char list option

type resolution =
| RName of char list
| RCrash

val resolve : menv -> char list -> resolution

val find_row : menv -> char list -> mrow option

val acceptable : char list -> char list -> bool

val cmath_sig : (char list * (nat * bool)) list

val sig_of :
  char list -> (char list * (nat * bool)) list -> (nat * bool) option

val callable_from_query : char list -> bool

val doc_ok : menv -> char list -> bool

val s_row : mrow -> sexp

val audit : menv -> char list list -> sexp

val math_rows : mrow list

val module_names : char list list

val builtin_names : (char list * char list) list

val documented : char list list

val math_env : menv

type wpart =
| WLit of char list
| WVar of bool * char list

type word = wpart list

type test =
| TFileF of word
| TFileE of word
| TFileD of word
| TStrZ of word
| TEq of word * word
| TNe of word * word
| TPrefix of word * char list
| TArgsLeft

type cmd =
| CAssign of char list * word
| CScriptDir of char list
| CPwdTo of char list
| CSetE
| CSetX
| CShiftOpt
| CExit of nat
| CEcho of word list * word option
| CCd of word
| CSource of word
| CExport of char list * word
| CEval of char list * char list * cmd
| CHeredoc of word * char list
| CRun of word list
| CIf of branches * cmds
| CGetopts of char list * char list * arms
and cmds =
| CNil
| CCons of cmd * cmds
and branches =
| BNil
| BCons of test * cmds * branches
and arms =
| ANil
| ACons of char list * cmds * arms

val capp : cmds -> cmds -> cmds

val prefix_strip : char list -> char list -> char list option

val split_sub : char list -> char list -> (char list * char list) option

val strip_suffix : char list -> char list -> char list option

val ends_slash : char list -> bool

val starts_slash : char list -> bool

val has_slash : char list -> bool

type path = char list list

val split_slash : char list -> char list list

val norm_step : path -> char list -> path

val resolve0 : path -> char list -> path option

val path_str : path -> char list

val basename : path -> char list

val is_prefix : path -> path -> bool

type node =
| Dir
| File of char list

type fs = (path * node option) list

val fs_lookup : fs -> path -> node option

val fs_get : fs -> path -> node option

val fs_set : fs -> path -> node option -> fs

val fs_rm_tree : fs -> path -> fs

val is_dir : fs -> path -> bool

val is_file : fs -> path -> bool

val exists_ : fs -> path -> bool

val file_content : fs -> path -> char list option

val write_file : fs -> path -> char list -> fs option

val mkdir_at : fs -> path -> fs option

type state = { vars : (char list * char list) list;
               exported : char list list; cwd : path; fsys : fs;
               pos : char list list; optind : nat; errexit : bool;
               last0 : nat; steps : nat; tlog : char list list list;
               unmodelled : bool; scriptdir : path }

val upd_vars : state -> (char list * char list) list -> state

val upd_exported : state -> char list list -> state

val upd_cwd : state -> path -> state

val upd_fs : state -> fs -> state

val upd_pos : state -> char list list -> state

val upd_optind : state -> nat -> state

val upd_errexit : state -> bool -> state

val upd_last : state -> nat -> state

val mark_unmodelled : state -> state

val take_step : state -> char list list -> state

val assoc_get : (char list * char list) list -> char list -> char list option

val assoc_set :
  (char list * char list) list -> char list -> char list ->
  (char list * char list) list

val set_var : state -> char list -> char list -> state

val get_var : state -> char list -> char list

val get_env : state -> char list -> char list

val expand_part : state -> wpart -> char list * bool

val expand_str : state -> word -> char list

val expand_word : state -> word -> char list list

val expand_words : state -> word list -> char list list

val one_path : state -> word -> path option option

val eval_test : state -> test -> bool option

type gev =
| GOpt of char list * char list
| GBad

val opt_kind : char list -> char -> bool option

val scan_chars : char list -> char list -> gev list * char list option

val getopts_events : char list -> char list list -> gev list * nat

val pat_match : char list -> char list -> bool

val sourced_release : char list

val sourced_setup : char list

val sourced_entry : char list

val nl : char list

val job_output : char list -> char list -> char list

val converted : char list -> char list

val opt_or : 'a1 option -> 'a1 -> 'a1

type outcome =
| Cont of state
| Exit of nat * state

val finish : state -> nat -> outcome

val unmod : state -> outcome

val res : state -> char list -> path option

val cp_effect : state -> char list -> char list -> fs option

val is_file_s : state -> char list -> bool

val is_dir_s : state -> char list -> bool

val exists_s : state -> char list -> bool

val content_s : state -> char list -> char list

val write_s : state -> fs -> char list -> char list -> fs option

val mkdir_s : state -> fs -> char list -> fs option

val obind : 'a1 option -> ('a1 -> 'a2 option) -> 'a2 option

type tool_res =
| TOk of fs
| TFail
| TUnmodelled

val of_opt : fs option -> tool_res

val known_tools : char list list

val tool_effect :
  char list -> state -> char list -> char list list -> tool_res

val run_tool :
  (nat -> bool) -> char list -> state -> char list list -> outcome

val run_source : (nat -> bool) -> state -> word -> outcome

val run_events :
  char list -> (char list -> (state -> outcome) option) -> gev list -> state
  -> outcome

val exec_cmds : (nat -> bool) -> char list -> cmds -> state -> outcome

type result0 = { r_exit : nat; r_st : state }

val run_script : (nat -> bool) -> char list -> cmds -> state -> result0

type config = { cf_fl_dir : bool; cf_fl_local : bool; cf_release : bool;
                cf_entry : bool; cf_calib : bool; cf_cvsroot : bool }

val default_filelist : char list

val pkg_content : char list -> char list

val opt_if : bool -> 'a1 -> 'a1 option

val init_fs : char list list -> path list -> config -> fs

val init_state : config -> fs -> char list list -> state

val invoke :
  cmds -> config -> fs -> char list list -> (nat -> bool) -> char list ->
  result0

type invocation = { i_args : char list list; i_oracle : (nat -> bool);
                    i_nonce : char list }

val run_history : cmds -> config -> fs -> invocation list -> result0 list

val dest_slots : path list

val run_dir_atlas : path

val run_dir_cms : path

val slots_atlas : path list

val slots_cms : path list

val pkg_atlas : char list list

val pkg_cms : char list list

val oracle_of : nat list -> nat -> bool

val d_config : sexp -> config option

val d_inv : sexp -> invocation option

val d_stale : sexp -> (char list * char list) option

val snap_dirs : char list list

val enc_fs : fs -> sexp

val enc_result : result0 -> sexp

val add_stale : fs -> (char list * char list) list -> fs

val run_wire : cmds -> char list list -> path list -> sexp -> sexp

val run_getopts : sexp -> sexp

val script_pre : cmds

val script_os : char list

val script_var : char list

val script_arms : arms

val script_rest_of : (nat -> char list) -> cmds

val heredocs : char list list

val script_rest : cmds

val script : cmds

val script_pre0 : cmds

val script_os0 : char list

val script_var0 : char list

val script_arms0 : arms

val script_rest_of0 : (nat -> char list) -> cmds

val heredocs0 : char list list

val script_rest0 : cmds

val script0 : cmds

val script_pre1 : cmds

val script_os1 : char list

val script_var1 : char list

val script_arms1 : arms

val script_rest_of1 : (nat -> char list) -> cmds

val heredocs1 : char list list

val script_rest1 : cmds

val script1 : cmds

val dispatch : char list -> sexp -> sexp
