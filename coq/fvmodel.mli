
val xorb : bool -> bool -> bool

val negb : bool -> bool

type nat =
| O
| S of nat

val option_map : ('a1 -> 'a2) -> 'a1 option -> 'a2 option

val fst : ('a1 * 'a2) -> 'a1

val snd : ('a1 * 'a2) -> 'a2

val length : 'a1 list -> nat

val app : 'a1 list -> 'a1 list -> 'a1 list

type comparison =
| Eq
| Lt
| Gt

val add : nat -> nat -> nat

val mul : nat -> nat -> nat

val sub : nat -> nat -> nat

val eqb : bool -> bool -> bool

type positive =
| XI of positive
| XO of positive
| XH

type n =
| N0
| Npos of positive

type z =
| Z0
| Zpos of positive
| Zneg of positive

module Nat :
 sig
  val eqb : nat -> nat -> bool

  val leb : nat -> nat -> bool

  val ltb : nat -> nat -> bool

  val max : nat -> nat -> nat
 end

module Pos :
 sig
  type mask =
  | IsNul
  | IsPos of positive
  | IsNeg
 end

module Coq_Pos :
 sig
  val succ : positive -> positive

  val add : positive -> positive -> positive

  val add_carry : positive -> positive -> positive

  val pred_double : positive -> positive

  type mask = Pos.mask =
  | IsNul
  | IsPos of positive
  | IsNeg

  val succ_double_mask : mask -> mask

  val double_mask : mask -> mask

  val double_pred_mask : positive -> mask

  val sub_mask : positive -> positive -> mask

  val sub_mask_carry : positive -> positive -> mask

  val mul : positive -> positive -> positive

  val size : positive -> positive

  val compare_cont : comparison -> positive -> positive -> comparison

  val compare : positive -> positive -> comparison

  val eqb : positive -> positive -> bool

  val iter_op : ('a1 -> 'a1 -> 'a1) -> positive -> 'a1 -> 'a1

  val to_nat : positive -> nat

  val of_succ_nat : nat -> positive
 end

module N :
 sig
  val succ_double : n -> n

  val double : n -> n

  val add : n -> n -> n

  val sub : n -> n -> n

  val mul : n -> n -> n

  val compare : n -> n -> comparison

  val eqb : n -> n -> bool

  val leb : n -> n -> bool

  val size : n -> n

  val pos_div_eucl : positive -> n -> n * n

  val div_eucl : n -> n -> n * n

  val div : n -> n -> n

  val modulo : n -> n -> n

  val to_nat : n -> nat

  val of_nat : nat -> n
 end

val zero : char

val one : char

val shift : bool -> char -> char

val ascii_of_pos : positive -> char

val ascii_of_N : n -> char

val ascii_of_nat : nat -> char

val n_of_digits : bool list -> n

val n_of_ascii : char -> n

val nat_of_ascii : char -> nat

val map : ('a1 -> 'a2) -> 'a1 list -> 'a2 list

val fold_right : ('a2 -> 'a1 -> 'a1) -> 'a1 -> 'a2 list -> 'a1

val forallb : ('a1 -> bool) -> 'a1 list -> bool

val combine : 'a1 list -> 'a2 list -> ('a1 * 'a2) list

module Z :
 sig
  val opp : z -> z

  val to_nat : z -> nat

  val of_N : n -> z
 end

val eqb0 : char list -> char list -> bool

val append : char list -> char list -> char list

val length0 : char list -> nat

val prefix : char list -> char list -> bool

type err =
| ErrValue
| ErrRuntime
| ErrAssert
| ErrNotImpl
| ErrKey
| ErrType
| ErrAttr
| ErrIndex
| ErrTranslation
| ErrOutOfFuel
| ErrOther of char list

type 'a result =
| OK of 'a
| Error of err

val err_name : err -> char list

val mem_str : char list -> char list list -> bool

val list_str_eqb : char list list -> char list list -> bool

val concat_str : char list list -> char list

val digit_char : nat -> char

val dec_N_fuel : nat -> n -> char list -> char list

val dec_N : n -> char list

val dec_nat : nat -> char list

val is_digit : char -> bool

val parse_N_acc : char list -> n -> n option

val parse_N : char list -> n option

val parse_Z : char list -> z option

type sexp =
| SAtom of char list
| SList of sexp list

val s_str : char list -> sexp

val s_strs : char list list -> sexp

val s_nat : nat -> sexp

val s_bool : bool -> sexp

val s_tag : char list -> sexp list -> sexp

val s_err : err -> sexp

val s_result : ('a1 -> sexp) -> 'a1 result -> sexp

val d_str : sexp -> char list option

val d_list : (sexp -> 'a1 option) -> sexp list -> 'a1 list option

val d_strs : sexp -> char list list option

val d_Z : sexp -> z option

val d_nat : sexp -> nat option

val d_bool : sexp -> bool option

val bad_input : sexp

type jblock = { jb_name : char list; jb_script : char list list;
                jb_deps : char list list }

type entry = char list * (char list list * char list list)

type table = entry list

val tget : char list -> table -> (char list list * char list list) option

val textend : char list -> char list list -> table -> table

val step1 : table -> jblock -> table result

val phase1 : jblock list -> table -> table result

val has_key : char list -> table -> bool

val deps_present : table -> bool

val one_pass :
  table -> char list list -> char list list -> bool -> (char list
  list * char list list) * bool

val emit_loop :
  nat -> table -> char list list -> char list list -> char list list result

val gen : jblock list -> char list list result

val d_jblock : sexp -> jblock option

val run_gen : sexp -> sexp

type mrow = { m_py : char list; m_cpp : char list; m_inc : char list list;
              m_ret : char list }

type menv = { e_rows : mrow list; e_module : char list list;
              e_builtins : (char list * char list) list }

val lookup_row : char list -> mrow list -> mrow option

val assoc : char list -> (char list * char list) list -> char list option

type resolution =
| RName of char list
| RCrash

val resolve : menv -> char list -> resolution

val find_row : menv -> char list -> mrow option

val acceptable : char list -> char list -> bool

val cmath_sig : (char list * (nat * bool)) list

val sig_of :
  char list -> (char list * (nat * bool)) list -> (nat * bool) option

val callable_from_query : char list -> bool

val doc_ok : menv -> char list -> bool

val s_row : mrow -> sexp

val audit : menv -> char list list -> sexp

val math_rows : mrow list

val module_names : char list list

val builtin_names : (char list * char list) list

val documented : char list list

val math_env : menv

val in_range : nat -> nat -> char -> bool

val is_dig : char -> bool

val is_oct : char -> bool

val is_letter : char -> bool

val is_word : char -> bool

val head_word : char list -> bool

val drop : nat -> char list -> char list

val last_word : bool -> char list -> bool

val all_chars : (char -> bool) -> char list -> bool

val match_at : bool -> char list -> char list -> bool

val is_empty : char list -> bool

val first_alt :
  bool -> (char list * char list) list -> bool -> char list ->
  (char list * char list) option

val sub_go :
  (char list * char list) list -> bool -> nat -> char list -> char list

val re_sub_alts : (char list * char list) list -> char list -> char list

type titem =
| TLit of char
| TWhole

val re_error : err

val bs : char

val oct_val : char -> nat

val until_gt : char list -> char list option

val is_identifier : char list -> bool

val is_zero : char -> bool

val simple_escape : char -> char option

val escape_step : char -> char list -> (titem list * nat) result

val tparse : nat -> char list -> titem list result

val expand : titem list -> char list -> char list

val re_sub_template : char list -> char list -> char list -> char list result

val has_key0 : char list -> (char list * char list) list -> bool

val build_lookup :
  (char list * char list) list -> (char list * char list) list ->
  (char list * char list) list

val impl_subst : (char list * char list) list -> char list -> char list

val seq_subst : (char list * char list) list -> char list -> char list result

val tokenise : char list -> char list list

val assoc0 : char list -> (char list * char list) list -> char list option

val map_token : (char list * char list) list -> char list -> char list

val spec_subst : (char list * char list) list -> char list -> char list

type ctype = { ct_name : char list; ct_pdepth : nat; ct_const : bool }

val stars : nat -> char list

val ctype_str : ctype -> char list

val result_type_str : ctype -> bool -> char list

type cpp_spec = { sp_name : char list; sp_includes : char list list;
                  sp_args : char list list; sp_code : char list list;
                  sp_result : char list; sp_rtype : ctype; sp_is_coll : 
                  bool; sp_method_obj : char list option }

type cpp_value = { cv_includes : char list list; cv_libs : char list list;
                   cv_args : char list list; cv_code : char list list;
                   cv_result : char list; cv_rname : char list;
                   cv_rtype : char list;
                   cv_instance : (char list * char list) option;
                   cv_fields : ((char list * char list) * char list) list }

type call_style =
| StyleFunc
| StyleMethod of char list

val build_value : cpp_spec -> call_style -> nat -> cpp_value result

val unique_name : char list -> nat -> char list

val add_unique : char list list -> char list list -> char list list

val ends_semicolon : char list -> bool

val arbitrary_statement : char list -> char list

val set_var_line : char list -> char list -> char list

type emitted = { em_decl : (char list * char list);
                 em_includes : char list list; em_libs : char list list;
                 em_block : char list list;
                 em_class_vars : (char list * char list) list;
                 em_book : char list list; em_result : char list;
                 em_counter : nat }

val map_result : ('a1 -> 'a2 result) -> 'a1 list -> 'a2 list result

val process_node_with :
  ((char list * char list) list -> char list -> char list result) ->
  cpp_value -> char list -> char list list -> nat -> char list list ->
  char list list -> emitted result

val process_node :
  cpp_value -> char list -> char list list -> nat -> char list list ->
  char list list -> emitted result

val process_node_seq :
  cpp_value -> char list -> char list list -> nat -> char list list ->
  char list list -> emitted result

val render_call : emitted -> char list list

type qexpr =
| QName of char list
| QLeaf of char list
| QAttr of qexpr * char list
| QCall of qexpr * qexpr list
| QCpp of cpp_value * qexpr list
| QNode of char list * qexpr list

val find_spec : char list -> (char list * cpp_spec) list -> cpp_spec option

val finder : (char list * cpp_spec) list -> qexpr -> qexpr result

val d_pair : sexp -> (char list * char list) option

val d_pairs : sexp -> (char list * char list) list option

val s_pair : (char list * char list) -> sexp

val run_resub : sexp -> sexp

val run_subst : sexp -> sexp

val run_seq : sexp -> sexp

val run_spec : sexp -> sexp

val run_tokens : sexp -> sexp

val d_opt_str : sexp -> char list option option

val d_ctype : sexp -> ctype option

val d_spec : sexp -> cpp_spec option

val d_style : sexp -> call_style option

val d_field : sexp -> ((char list * char list) * char list) option

val s_emitted : emitted -> sexp

val run_call : sexp -> sexp

val d_qexpr : nat -> sexp -> qexpr option

val s_qexpr : qexpr -> sexp

val sexp_depth : sexp -> nat

val d_tbl_entry : sexp -> (char list * cpp_spec) option

val run_finder : sexp -> sexp

val dispatch : char list -> sexp -> sexp
