
val negb : bool -> bool

type nat =
| O
| S of nat

val option_map : ('a1 -> 'a2) -> 'a1 option -> 'a2 option

val fst : ('a1 * 'a2) -> 'a1

val snd : ('a1 * 'a2) -> 'a2

val length : 'a1 list -> nat

val app : 'a1 list -> 'a1 list -> 'a1 list

type comparison =
| Eq
| Lt
| Gt

val add : nat -> nat -> nat

type positive =
| XI of positive
| XO of positive
| XH

type n =
| N0
| Npos of positive

module Nat :
 sig
  val eqb : nat -> nat -> bool

  val leb : nat -> nat -> bool

  val ltb : nat -> nat -> bool
 end

module Pos :
 sig
  type mask =
  | IsNul
  | IsPos of positive
  | IsNeg
 end

module Coq_Pos :
 sig
  val succ : positive -> positive

  val add : positive -> positive -> positive

  val add_carry : positive -> positive -> positive

  val pred_double : positive -> positive

  type mask = Pos.mask =
  | IsNul
  | IsPos of positive
  | IsNeg

  val succ_double_mask : mask -> mask

  val double_mask : mask -> mask

  val double_pred_mask : positive -> mask

  val sub_mask : positive -> positive -> mask

  val sub_mask_carry : positive -> positive -> mask

  val mul : positive -> positive -> positive

  val size : positive -> positive

  val compare_cont : comparison -> positive -> positive -> comparison

  val compare : positive -> positive -> comparison

  val eqb : positive -> positive -> bool

  val iter_op : ('a1 -> 'a1 -> 'a1) -> positive -> 'a1 -> 'a1

  val to_nat : positive -> nat

  val of_succ_nat : nat -> positive
 end

module N :
 sig
  val succ_double : n -> n

  val double : n -> n

  val add : n -> n -> n

  val sub : n -> n -> n

  val mul : n -> n -> n

  val compare : n -> n -> comparison

  val eqb : n -> n -> bool

  val leb : n -> n -> bool

  val size : n -> n

  val pos_div_eucl : positive -> n -> n * n

  val div_eucl : n -> n -> n * n

  val div : n -> n -> n

  val modulo : n -> n -> n

  val to_nat : n -> nat

  val of_nat : nat -> n
 end

val zero : char

val one : char

val shift : bool -> char -> char

val ascii_of_pos : positive -> char

val ascii_of_N : n -> char

val ascii_of_nat : nat -> char

val n_of_digits : bool list -> n

val n_of_ascii : char -> n

val nat_of_ascii : char -> nat

val map : ('a1 -> 'a2) -> 'a1 list -> 'a2 list

val flat_map : ('a1 -> 'a2 list) -> 'a1 list -> 'a2 list

val fold_left : ('a1 -> 'a2 -> 'a1) -> 'a2 list -> 'a1 -> 'a1

val existsb : ('a1 -> bool) -> 'a1 list -> bool

val forallb : ('a1 -> bool) -> 'a1 list -> bool

val eqb0 : char list -> char list -> bool

val append : char list -> char list -> char list

type err =
| ErrValue
| ErrRuntime
| ErrAssert
| ErrNotImpl
| ErrKey
| ErrType
| ErrAttr
| ErrIndex
| ErrTranslation
| ErrOutOfFuel
| ErrOther of char list

type 'a result =
| OK of 'a
| Error of err

val bind : 'a1 result -> ('a1 -> 'a2 result) -> 'a2 result

val err_name : err -> char list

val mem_str : char list -> char list list -> bool

val list_str_eqb : char list list -> char list list -> bool

val digit_char : nat -> char

val dec_N_fuel : nat -> n -> char list -> char list

val dec_N : n -> char list

val dec_nat : nat -> char list

type sexp =
| SAtom of char list
| SList of sexp list

val s_strs : char list list -> sexp

val s_nat : nat -> sexp

val s_bool : bool -> sexp

val s_tag : char list -> sexp list -> sexp

val s_err : err -> sexp

val s_result : ('a1 -> sexp) -> 'a1 result -> sexp

val d_str : sexp -> char list option

val d_list : (sexp -> 'a1 option) -> sexp list -> 'a1 list option

val d_strs : sexp -> char list list option

val d_bool : sexp -> bool option

val bad_input : sexp

type jblock = { jb_name : char list; jb_script : char list list;
                jb_deps : char list list }

type entry = char list * (char list list * char list list)

type table = entry list

val tget : char list -> table -> (char list list * char list list) option

val textend : char list -> char list list -> table -> table

val step1 : table -> jblock -> table result

val phase1 : jblock list -> table -> table result

val has_key : char list -> table -> bool

val deps_present : table -> bool

val one_pass :
  table -> char list list -> char list list -> bool -> (char list
  list * char list list) * bool

val emit_loop :
  nat -> table -> char list list -> char list list -> char list list result

val gen : jblock list -> char list list result

val d_jblock : sexp -> jblock option

val run_gen : sexp -> sexp

type mrow = { m_py : char list; m_cpp : char list; m_inc : char list list;
              m_ret : char list }

type menv = { e_rows : mrow list; e_module : char list list;
              e_builtins : (char list * char list) list }

val lookup_row : char list -> mrow list -> mrow option

val assoc : char list -> (char list * char list) list -> char list option

type resolution =
| RName of char list
| RCrash

val resolve : menv -> char list -> resolution

val find_row : menv -> char list -> mrow option

val acceptable : char list -> char list -> bool

val cmath_sig : (char list * (nat * bool)) list

val sig_of :
  char list -> (char list * (nat * bool)) list -> (nat * bool) option

val callable_from_query : char list -> bool

val doc_ok : menv -> char list -> bool

val s_row : mrow -> sexp

val audit : menv -> char list list -> sexp

val math_rows : mrow list

val module_names : char list list

val builtin_names : (char list * char list) list

val documented : char list list

val math_env : menv

val is_word : char -> bool

val snoc : char list -> char -> char list

val flush : char list -> char list -> char list -> char list

val sub_run : char list -> char list -> char list -> char list -> char list

val subst_word : char list -> char list -> char list -> char list

type hole =
| HCont
| HType
| HTok

type piece =
| PLit of char list
| PHole of hole
| PArg

type pattern = piece list

type henv = { e_cont : char list; e_type : char list; e_tok : char list }

val hole_val : henv -> hole -> char list

val inst : henv -> char list -> pattern -> char list

val fstring : henv -> pattern -> char list

val merge_lits : pattern -> pattern

type ckind =
| KSingle
| KColl

type cclass = { cc_name : char list; cc_kind : ckind; cc_str : pattern;
                cc_token : pattern option; cc_pd_type : nat; cc_pd_elem : 
                nat }

type cspec = { cs_backend : char list; cs_name : char list;
               cs_includes : char list list; cs_kind : ckind;
               cs_type : char list; cs_pd_type : nat; cs_elem : char list;
               cs_pd_elem : nat; cs_str : pattern; cs_token : pattern option;
               cs_libs : char list list }

val type_env : char list -> henv

val cont_str : cspec -> char list

val token_type : cspec -> char list option

type token_alloc =
| TokNone
| TokPerClass
| TokPerCall

type coder = { cd_lines : pattern list; cd_alloc : token_alloc;
               cd_init : pattern option }

type mdkind = { mk_type : char list; mk_keys : char list list;
                mk_bname : char list; mk_coll : cclass;
                mk_single : cclass option; mk_libs : bool; mk_elem_ptr : 
                bool }

type backend = { b_key : char list; b_accepts : char list;
                 b_table : cspec list; b_coder : coder }

type cenv = { c_backends : backend list; c_kinds : mdkind list;
              c_default_types : (char list * (((char list * char list) * char list) * nat)
                                list) list }

type mval =
| MStr of char list
| MBool of bool
| MList of char list list

type mdict = (char list * mval) list

val md_get : char list -> mdict -> mval option

val md_has : char list -> mdict -> bool

val unmodelled : 'a1 result

val req_str : char list -> mdict -> char list result

val req_bool : char list -> mdict -> bool result

val req_list : char list -> mdict -> char list list result

val find_kind : char list -> mdkind list -> mdkind option

val unexpected_key : mdkind -> mdict -> bool

val spec_of_class :
  char list -> char list -> char list list -> cclass -> char list ->
  char list -> nat -> char list list -> cspec

val process_decl : mdkind list -> mdict -> cspec result

val process_metadata : mdkind list -> mdict list -> cspec list result

val build_collection_callback : backend -> cspec -> cspec result

val check_backends : backend -> cspec list -> unit result

val find_last : char list -> cspec list -> cspec option

val lookup_collection : backend -> cspec list -> char list -> cspec option

type uname = { un_base : char list; un_idx : nat }

val render_name : uname -> char list

val lower_char : char -> char

val lower : char list -> char list

type vdecl = { vd_type : char list; vd_name : uname }

type stmt =
| SArb of char list
| SSet of uname * char list
| SBlk of vdecl list * stmt list

type gstate = { g_vars : vdecl list; g_stmts : stmt list;
                g_class : vdecl list; g_book : stmt list;
                g_inc : char list list; g_libs : char list list; g_ctr : 
                nat }

val add_unique : char list -> char list list -> char list list

val add_all : char list list -> char list list -> char list list

type arg =
| AStr of char list
| AOther

type use = { u_name : char list; u_args : arg list }

type rep_kind =
| RVar
| RColl

type cpv = { v_args : char list list; v_includes : char list list;
             v_libs : char list list; v_code : char list list;
             v_result : char list; v_rep : rep_kind; v_spec : cspec;
             v_fields : (vdecl * char list) list }

val param_name : char list

val compose : pattern -> pattern -> pattern

val line_env : cspec -> char list -> henv

val running_code : coder -> cspec -> char list -> char list list

val token_fields : coder -> cspec -> uname -> (vdecl * char list) list

val class_token : uname

val get_collection : coder -> cspec -> arg list -> nat -> (cpv * nat) result

val cpp_string_literal : char list -> char list

type rep = { r_kind : rep_kind; r_name : uname; r_type : char list;
             r_pd : nat; r_elem : char list; r_pd_elem : nat }

val process_ast_node : cpv -> char list -> gstate -> gstate * rep

val deref_expr : rep -> char list

val wrap_deref : nat -> char list -> char list

val member_access : char list -> nat -> nat -> char list

val emit_decl : vdecl -> char list

val emit_stmt : stmt -> char list list

val emit_stmts : stmt list -> char list list

val bank_of : use -> char list

val find_uses :
  backend -> cspec list -> use list -> nat -> ((cpv * char list) list * nat)
  result

val translate_uses : (cpv * char list) list -> gstate -> gstate * rep list

val empty_gstate : nat -> gstate

val run_query :
  cenv -> backend -> mdict list -> use list -> (gstate * rep list) result

val d_mval : sexp -> mval option

val d_kv : sexp -> (char list * mval) option

val d_mdict : sexp -> mdict option

val d_arg : sexp -> arg option

val d_use : sexp -> use option

val find_backend : char list -> backend list -> backend option

val s_decl : vdecl -> sexp

val s_rep : rep -> sexp

val s_pkg : (gstate * rep list) -> sexp

val run_query_wire : cenv -> sexp -> sexp

val run_subst_wire : sexp -> sexp

val s_hole : hole -> char list

val s_pattern : pattern -> sexp

val s_spec : cspec -> sexp

val run_tables_wire : cenv -> sexp

val atlas_table : cspec list

val atlas_coder : coder

val atlas_backend : backend

val cms_aod_table : cspec list

val cms_aod_coder : coder

val cms_aod_backend : backend

val cms_miniaod_table : cspec list

val cms_miniaod_coder : coder

val cms_miniaod_backend : backend

val md_kinds : mdkind list

val default_types :
  (char list * (((char list * char list) * char list) * nat) list) list

val coll_env : cenv

val dispatch : char list -> sexp -> sexp
