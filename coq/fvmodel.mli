
val negb : bool -> bool

type nat =
| O
| S of nat

val fst : ('a1 * 'a2) -> 'a1

val snd : ('a1 * 'a2) -> 'a2

val length : 'a1 list -> nat

val app : 'a1 list -> 'a1 list -> 'a1 list

type comparison =
| Eq
| Lt
| Gt

val add : nat -> nat -> nat

type positive =
| XI of positive
| XO of positive
| XH

type n =
| N0
| Npos of positive

module Nat :
 sig
  val leb : nat -> nat -> bool

  val ltb : nat -> nat -> bool
 end

module Pos :
 sig
  type mask =
  | IsNul
  | IsPos of positive
  | IsNeg
 end

module Coq_Pos :
 sig
  val succ : positive -> positive

  val pred_double : positive -> positive

  type mask = Pos.mask =
  | IsNul
  | IsPos of positive
  | IsNeg

  val succ_double_mask : mask -> mask

  val double_mask : mask -> mask

  val double_pred_mask : positive -> mask

  val sub_mask : positive -> positive -> mask

  val sub_mask_carry : positive -> positive -> mask

  val size : positive -> positive

  val compare_cont : comparison -> positive -> positive -> comparison

  val compare : positive -> positive -> comparison

  val eqb : positive -> positive -> bool

  val iter_op : ('a1 -> 'a1 -> 'a1) -> positive -> 'a1 -> 'a1

  val to_nat : positive -> nat

  val of_succ_nat : nat -> positive
 end

module N :
 sig
  val succ_double : n -> n

  val double : n -> n

  val sub : n -> n -> n

  val compare : n -> n -> comparison

  val eqb : n -> n -> bool

  val leb : n -> n -> bool

  val size : n -> n

  val pos_div_eucl : positive -> n -> n * n

  val div_eucl : n -> n -> n * n

  val div : n -> n -> n

  val modulo : n -> n -> n

  val to_nat : n -> nat

  val of_nat : nat -> n
 end

val zero : char

val one : char

val shift : bool -> char -> char

val ascii_of_pos : positive -> char

val ascii_of_N : n -> char

val ascii_of_nat : nat -> char

val map : ('a1 -> 'a2) -> 'a1 list -> 'a2 list

val forallb : ('a1 -> bool) -> 'a1 list -> bool

val eqb0 : char list -> char list -> bool

val append : char list -> char list -> char list

type err =
| ErrValue
| ErrRuntime
| ErrAssert
| ErrNotImpl
| ErrKey
| ErrType
| ErrAttr
| ErrIndex
| ErrTranslation
| ErrOutOfFuel
| ErrOther of char list

type 'a result =
| OK of 'a
| Error of err

val err_name : err -> char list

val mem_str : char list -> char list list -> bool

val list_str_eqb : char list list -> char list list -> bool

val digit_char : nat -> char

val dec_N_fuel : nat -> n -> char list -> char list

val dec_N : n -> char list

val dec_nat : nat -> char list

type sexp =
| SAtom of char list
| SList of sexp list

val s_strs : char list list -> sexp

val s_nat : nat -> sexp

val s_bool : bool -> sexp

val s_tag : char list -> sexp list -> sexp

val s_err : err -> sexp

val s_result : ('a1 -> sexp) -> 'a1 result -> sexp

val d_str : sexp -> char list option

val d_list : (sexp -> 'a1 option) -> sexp list -> 'a1 list option

val d_strs : sexp -> char list list option

val bad_input : sexp

type jblock = { jb_name : char list; jb_script : char list list;
                jb_deps : char list list }

type entry = char list * (char list list * char list list)

type table = entry list

val tget : char list -> table -> (char list list * char list list) option

val textend : char list -> char list list -> table -> table

val step1 : table -> jblock -> table result

val phase1 : jblock list -> table -> table result

val has_key : char list -> table -> bool

val deps_present : table -> bool

val one_pass :
  table -> char list list -> char list list -> bool -> (char list
  list * char list list) * bool

val emit_loop :
  nat -> table -> char list list -> char list list -> char list list result

val gen : jblock list -> char list list result

val d_jblock : sexp -> jblock option

val run_gen : sexp -> sexp

type mrow = { m_py : char list; m_cpp : char list; m_inc : char list list;
              m_ret : char list }

type menv = { e_rows : mrow list; e_module : char list list;
              e_builtins : (char list * char list) list }

val lookup_row : char list -> mrow list -> mrow option

val assoc : char list -> (char list * char list) list -> char list option

type resolution =
| RName of char list
| RCrash

val resolve : menv -> char list -> resolution

val find_row : menv -> char list -> mrow option

val acceptable : char list -> char list -> bool

val cmath_sig : (char list * (nat * bool)) list

val sig_of :
  char list -> (char list * (nat * bool)) list -> (nat * bool) option

val callable_from_query : char list -> bool

val doc_ok : menv -> char list -> bool

val s_row : mrow -> sexp

val audit : menv -> char list list -> sexp

val math_rows : mrow list

val module_names : char list list

val builtin_names : (char list * char list) list

val documented : char list list

val math_env : menv

val dispatch : char list -> sexp -> sexp
