
val negb : bool -> bool

type nat =
| O
| S of nat

val option_map : ('a1 -> 'a2) -> 'a1 option -> 'a2 option

type ('a, 'b) sum =
| Inl of 'a
| Inr of 'b

val fst : ('a1 * 'a2) -> 'a1

val snd : ('a1 * 'a2) -> 'a2

val length : 'a1 list -> nat

val app : 'a1 list -> 'a1 list -> 'a1 list

type comparison =
| Eq
| Lt
| Gt

val compOpp : comparison -> comparison

val add : nat -> nat -> nat

val sub : nat -> nat -> nat

type positive =
| XI of positive
| XO of positive
| XH

type n =
| N0
| Npos of positive

type z =
| Z0
| Zpos of positive
| Zneg of positive

module Nat :
 sig
  val eqb : nat -> nat -> bool

  val leb : nat -> nat -> bool

  val ltb : nat -> nat -> bool

  val max : nat -> nat -> nat
 end

module Pos :
 sig
  type mask =
  | IsNul
  | IsPos of positive
  | IsNeg
 end

module Coq_Pos :
 sig
  val succ : positive -> positive

  val add : positive -> positive -> positive

  val add_carry : positive -> positive -> positive

  val pred_double : positive -> positive

  type mask = Pos.mask =
  | IsNul
  | IsPos of positive
  | IsNeg

  val succ_double_mask : mask -> mask

  val double_mask : mask -> mask

  val double_pred_mask : positive -> mask

  val sub_mask : positive -> positive -> mask

  val sub_mask_carry : positive -> positive -> mask

  val sub : positive -> positive -> positive

  val mul : positive -> positive -> positive

  val size_nat : positive -> nat

  val size : positive -> positive

  val compare_cont : comparison -> positive -> positive -> comparison

  val compare : positive -> positive -> comparison

  val eqb : positive -> positive -> bool

  val ggcdn : nat -> positive -> positive -> positive * (positive * positive)

  val ggcd : positive -> positive -> positive * (positive * positive)

  val iter_op : ('a1 -> 'a1 -> 'a1) -> positive -> 'a1 -> 'a1

  val to_nat : positive -> nat

  val of_succ_nat : nat -> positive
 end

module N :
 sig
  val succ_double : n -> n

  val double : n -> n

  val add : n -> n -> n

  val sub : n -> n -> n

  val mul : n -> n -> n

  val compare : n -> n -> comparison

  val eqb : n -> n -> bool

  val leb : n -> n -> bool

  val size : n -> n

  val pos_div_eucl : positive -> n -> n * n

  val div_eucl : n -> n -> n * n

  val div : n -> n -> n

  val modulo : n -> n -> n

  val to_nat : n -> nat

  val of_nat : nat -> n
 end

val zero : char

val one : char

val shift : bool -> char -> char

val ascii_of_pos : positive -> char

val ascii_of_N : n -> char

val ascii_of_nat : nat -> char

val n_of_digits : bool list -> n

val n_of_ascii : char -> n

val nat_of_ascii : char -> nat

val tl : 'a1 list -> 'a1 list

val nth_error : 'a1 list -> nat -> 'a1 option

val map : ('a1 -> 'a2) -> 'a1 list -> 'a2 list

val fold_right : ('a2 -> 'a1 -> 'a1) -> 'a1 -> 'a2 list -> 'a1

val forallb : ('a1 -> bool) -> 'a1 list -> bool

val filter : ('a1 -> bool) -> 'a1 list -> 'a1 list

val repeat : 'a1 -> nat -> 'a1 list

module Z :
 sig
  val double : z -> z

  val succ_double : z -> z

  val pred_double : z -> z

  val pos_sub : positive -> positive -> z

  val add : z -> z -> z

  val opp : z -> z

  val sub : z -> z -> z

  val mul : z -> z -> z

  val compare : z -> z -> comparison

  val sgn : z -> z

  val leb : z -> z -> bool

  val ltb : z -> z -> bool

  val eqb : z -> z -> bool

  val abs : z -> z

  val to_nat : z -> nat

  val of_nat : nat -> z

  val of_N : n -> z

  val to_pos : z -> positive

  val quotrem : z -> z -> z * z

  val quot : z -> z -> z

  val rem : z -> z -> z

  val ggcd : z -> z -> z * (z * z)
 end

val zeq_bool : z -> z -> bool

val eqb0 : char list -> char list -> bool

val append : char list -> char list -> char list

val length0 : char list -> nat

val substring : nat -> nat -> char list -> char list

type q = { qnum : z; qden : positive }

val inject_Z : z -> q

val qeq_bool : q -> q -> bool

val qle_bool : q -> q -> bool

val qplus : q -> q -> q

val qmult : q -> q -> q

val qopp : q -> q

val qminus : q -> q -> q

val qinv : q -> q

val qdiv : q -> q -> q

val qred : q -> q

type err =
| ErrValue
| ErrRuntime
| ErrAssert
| ErrNotImpl
| ErrKey
| ErrType
| ErrAttr
| ErrIndex
| ErrTranslation
| ErrOutOfFuel
| ErrOther of char list

type 'a result =
| OK of 'a
| Error of err

val err_name : err -> char list

val mem_str : char list -> char list list -> bool

val list_str_eqb : char list list -> char list list -> bool

val digit_char : nat -> char

val dec_N_fuel : nat -> n -> char list -> char list

val dec_N : n -> char list

val dec_Z : z -> char list

val dec_nat : nat -> char list

val is_digit : char -> bool

val parse_N_acc : char list -> n -> n option

val parse_N : char list -> n option

val parse_Z : char list -> z option

type sexp =
| SAtom of char list
| SList of sexp list

val s_strs : char list list -> sexp

val s_Z : z -> sexp

val s_nat : nat -> sexp

val s_bool : bool -> sexp

val s_tag : char list -> sexp list -> sexp

val s_err : err -> sexp

val s_result : ('a1 -> sexp) -> 'a1 result -> sexp

val d_str : sexp -> char list option

val d_list : (sexp -> 'a1 option) -> sexp list -> 'a1 list option

val d_strs : sexp -> char list list option

val d_Z : sexp -> z option

val d_nat : sexp -> nat option

val d_bool : sexp -> bool option

val bad_input : sexp

type jblock = { jb_name : char list; jb_script : char list list;
                jb_deps : char list list }

type entry = char list * (char list list * char list list)

type table = entry list

val tget : char list -> table -> (char list list * char list list) option

val textend : char list -> char list list -> table -> table

val step1 : table -> jblock -> table result

val phase1 : jblock list -> table -> table result

val has_key : char list -> table -> bool

val deps_present : table -> bool

val one_pass :
  table -> char list list -> char list list -> bool -> (char list
  list * char list list) * bool

val emit_loop :
  nat -> table -> char list list -> char list list -> char list list result

val gen : jblock list -> char list list result

val d_jblock : sexp -> jblock option

val run_gen : sexp -> sexp

type mrow = { m_py : char list; m_cpp : char list; m_inc : char list list;
              m_ret : char list }

type menv = { e_rows : mrow list; e_module : char list list;
              e_builtins : (char list * char list) list }

val lookup_row : char list -> mrow list -> mrow option

val assoc : char list -> (char list * char list) list -> char list option

type resolution =
| RName of char list
| RCrash

val resolve : menv -> char list -> resolution

val find_row : menv -> char list -> mrow option

val acceptable : char list -> char list -> bool

val cmath_sig : (char list * (nat * bool)) list

val sig_of :
  char list -> (char list * (nat * bool)) list -> (nat * bool) option

val callable_from_query : char list -> bool

val doc_ok : menv -> char list -> bool

val s_row : mrow -> sexp

val audit : menv -> char list list -> sexp

val math_rows : mrow list

val module_names : char list list

val builtin_names : (char list * char list) list

val documented : char list list

val math_env : menv

type cexp =
| CVar of char list
| CInt of z
| CDbl of char list * z * positive
| CBool of bool
| CStr of char list
| CBin of char list * cexp * cexp
| CUn of char list * cexp
| CNot of cexp
| CDeref of cexp
| CCall of char list * cexps
| CMeth of cexp * bool * char list * cexps
| CField of cexp * bool * char list
| CCast of char list * cexp
| CSubI of cexp * cexp
| COpaque of char list * char list list
and cexps =
| CNil
| CCons of cexp * cexps

type decl = { d_type : char list; d_name : char list; d_init : cexp option }

type stmt =
| SSet of char list * char list option * cexp
| SPush of char list * char list option * cexp
| SClear of char list
| SFill of char list
| SThrow of char list
| SFetch of char list * char list * char list * char list * char list list
| SIota of char list * char list
| SUser of char list list * char list list * char list option
| SLine of char list * char list list
| SFor of char list * cexp * block
| SIf of cexp * block * block option
| SBlk of block
and block =
| Blk of decl list * stmts
and stmts =
| SNil
| SCons of stmt * stmts

type member = { m_type : char list; m_name : char list }

type branch = { br_name : char list; br_var : char list }

type program = { p_members : member list; p_tree : char list;
                 p_branches : branch list; p_book_extra : char list list;
                 p_body : block }

val pr_exp : cexp -> char list

val pr_obj : cexp -> char list

val pr_args : cexps -> char list

val indent : nat -> char list

val pr_decl : decl -> char list

val pr_cast : char list option -> cexp -> char list

val pr_stmt : nat -> stmt -> char list list

val pr_block : nat -> block -> char list list

val pr_stmts : nat -> stmts -> char list list

val print_block : block -> char list list

val d_cexp_fuel : nat -> sexp -> cexp option

val sexp_depth : sexp -> nat

val d_cexp : sexp -> cexp option

val d_opt : (sexp -> 'a1 option) -> sexp -> 'a1 option option

val d_decl : sexp -> decl option

val d_stmt_fuel : nat -> sexp -> stmt option

val d_block : sexp -> block option

val d_member : sexp -> member option

val d_branch : sexp -> branch option

val d_program : sexp -> program option

val run_print : sexp -> sexp

type value =
| VInt of z
| VDbl of q
| VBool of bool
| VObj of nat
| VNull
| VVec of value list
| VStr of char list
| VSym of char list * value list
| VUninit

type fault =
| FThrow
| FOutOfRange
| FNullDeref
| FDivZero
| FRetrieve

type stuck =
| KUnbound of char list
| KUninit of char list
| KType of char list
| KOpaque of char list

type 'a res =
| ROk of 'a
| RFault of fault
| RStuck of stuck

val rbind : 'a1 res -> ('a1 -> 'a2 res) -> 'a2 res

type event = { ev_colls : ((char list * char list) * value) list;
               ev_meths : ((nat * char list) * value) list }

val assoc_ss :
  (char list * char list) -> ((char list * char list) * value) list -> value
  option

val assoc_ns :
  (nat * char list) -> ((nat * char list) * value) list -> value option

type binding = char list * (char list * value)

type frame = binding list

type state = { frames : frame list; members : frame; rows : value list list }

val frame_get : char list -> frame -> (char list * value) option

val frame_set : char list -> value -> frame -> frame option

val frames_get : char list -> frame list -> (char list * value) option

val frames_set : char list -> value -> frame list -> frame list option

val lookup : char list -> state -> (char list * value) option

val assign : char list -> value -> state -> state option

val qz : z -> q

val qtrunc : q -> z

val q_is0 : q -> bool

val qlt : q -> q -> bool

val prefix : char list -> char list -> bool

val is_vector_type : char list -> bool

val drop_last : char list -> char list

val vector_elem_type : char list -> char list

val conv : char list -> value -> value

val num_of : value -> (z, q) sum option

val to_q : (z, q) sum -> q

val is_sym : value -> bool

val arith : char list -> value -> value -> value res

val unary : char list -> value -> value res

val truth : value -> bool res

val math_arg : value -> value

val call_method : event -> value -> char list -> value list -> value res

val eval : event -> state -> cexp -> value res

val eval_args : event -> state -> cexps -> value list res

val default_value : char list -> value

val init_value : char list -> value -> value

val pop_frame : state -> state

val declare : char list -> char list -> value -> state -> state

val run_decls : event -> decl list -> state -> state res

val fill_row : branch list -> state -> value list

val iota : nat -> z -> value list

val exec_block : branch list -> event -> block -> frame -> state -> state res

val initial_members : member list -> frame

val run_event : program -> frame -> event -> (value list list * frame) res

type job_result =
| JDone of value list list list
| JAbort of value list list list * nat * fault
| JStuck of nat * stuck

val run_job_from :
  program -> frame -> event list -> nat -> value list list list -> job_result

val run_job : program -> event list -> job_result

val s_value : value -> sexp

val d_value_fuel : nat -> sexp -> value option

val d_value : sexp -> value option

val d_event : sexp -> event option

val s_fault : fault -> sexp

val s_stuck : stuck -> sexp

val s_rows : value list list -> sexp

val s_job : job_result -> sexp

val run_run : sexp -> sexp

val member_type : char list -> member list -> char list option

val count_member : char list -> member list -> nat

val column_types :
  member list -> branch list -> (char list * char list) list option

val nodup_str : char list list -> bool

val col_type : char list -> (char list * char list) list -> char list option

val is_col : (char list * char list) list -> char list -> bool

val is_vec_col : (char list * char list) list -> char list -> bool

val is_scalar_col : (char list * char list) list -> char list -> bool

val vec_cols : (char list * char list) list -> char list list

val none_is_col : (char list * char list) list -> char list list -> bool

val strip_clears : char list list -> stmts -> stmts option

val fill_line_ok : bool -> char list -> char list -> bool

val ok_block :
  bool -> char list -> (char list * char list) list -> block -> bool

val branches_ok : program -> bool

val fill_consistent_for : bool -> program -> bool

val run_fillcheck : sexp -> sexp

type backend =
| BeAtlas
| BeCmsAod
| BeCmsMiniaod

val prefix_of : backend -> char list

type colrep =
| KVal of char list * char list option
| KSeq of colrep
| KColl of char list
| KStruct of bool

type rowshape =
| RDict of (char list * colrep) list
| RTuple of colrep list
| RSingle of colrep

type names_arg =
| NList of char list list
| NStr of char list

type terminal =
| TImplicit
| TExplicit of names_arg * char list

val unique_name : char list -> bool -> nat -> char list

val vector_of : char list -> char list

val cpp_type_of : colrep -> char list result

val tree_type_of : colrep -> char list result

val get_ttree_type : colrep -> char list result

val rep_is_collection : colrep -> bool

val extract_column_names : names_arg -> char list list

val default_names_from : nat -> nat -> char list list

val default_names : nat -> char list list

type ttree_call = { tc_names : names_arg; tc_tree : char list;
                    tc_cols : colrep list }

val row_columns_explicit : rowshape -> colrep list

val get_as_ROOT : backend -> terminal -> rowshape -> ttree_call result

type column = { c_name : char list; c_var : char list; c_type : char list;
                c_is_vec : bool }

type schema = { sc_tree : char list; sc_columns : column list;
                sc_class_decl : char list list; sc_book : char list list;
                sc_fill : char list; sc_clears : char list list;
                sc_descr : (char list * char list); sc_next_index : nat }

val make_columns : char list list -> colrep list -> nat -> column list result

val fill_assert : colrep list -> unit result

val class_declaration_code : column list -> char list list

val branch_line : column -> char list

val book_emit : backend -> char list -> column list -> char list list

val fill_emit : backend -> char list -> char list

val descriptor_file : char list

val call_ResultTTree : backend -> nat -> ttree_call -> schema result

val translate_terminal :
  backend -> nat -> terminal -> rowshape -> schema result

val expected_names : terminal -> rowshape -> char list list

val expected_tree : backend -> terminal -> char list

val d_backend : sexp -> backend option

val d_colrep_fuel : nat -> sexp -> colrep option

val sexp_size : sexp -> nat

val d_colrep : sexp -> colrep option

val d_row : sexp -> rowshape option

val d_terminal : sexp -> terminal option

val s_column : column -> sexp

val s_schema : schema -> sexp

val run_schema : sexp -> sexp

val run_expected : sexp -> sexp

val dispatch : char list -> sexp -> sexp
