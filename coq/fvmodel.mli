
val negb : bool -> bool

type nat =
| O
| S of nat

val option_map : ('a1 -> 'a2) -> 'a1 option -> 'a2 option

val fst : ('a1 * 'a2) -> 'a1

val snd : ('a1 * 'a2) -> 'a2

val length : 'a1 list -> nat

val app : 'a1 list -> 'a1 list -> 'a1 list

type comparison =
| Eq
| Lt
| Gt

val compOpp : comparison -> comparison

val add : nat -> nat -> nat

val sub : nat -> nat -> nat

type positive =
| XI of positive
| XO of positive
| XH

type n =
| N0
| Npos of positive

type z =
| Z0
| Zpos of positive
| Zneg of positive

module Nat :
 sig
  val sub : nat -> nat -> nat

  val eqb : nat -> nat -> bool

  val leb : nat -> nat -> bool

  val ltb : nat -> nat -> bool

  val divmod : nat -> nat -> nat -> nat -> nat * nat

  val div : nat -> nat -> nat

  val modulo : nat -> nat -> nat
 end

module Pos :
 sig
  type mask =
  | IsNul
  | IsPos of positive
  | IsNeg
 end

module Coq_Pos :
 sig
  val succ : positive -> positive

  val add : positive -> positive -> positive

  val add_carry : positive -> positive -> positive

  val pred_double : positive -> positive

  type mask = Pos.mask =
  | IsNul
  | IsPos of positive
  | IsNeg

  val succ_double_mask : mask -> mask

  val double_mask : mask -> mask

  val double_pred_mask : positive -> mask

  val sub_mask : positive -> positive -> mask

  val sub_mask_carry : positive -> positive -> mask

  val mul : positive -> positive -> positive

  val size : positive -> positive

  val compare_cont : comparison -> positive -> positive -> comparison

  val compare : positive -> positive -> comparison

  val eqb : positive -> positive -> bool

  val iter_op : ('a1 -> 'a1 -> 'a1) -> positive -> 'a1 -> 'a1

  val to_nat : positive -> nat

  val of_succ_nat : nat -> positive
 end

module N :
 sig
  val succ_double : n -> n

  val double : n -> n

  val add : n -> n -> n

  val sub : n -> n -> n

  val mul : n -> n -> n

  val compare : n -> n -> comparison

  val eqb : n -> n -> bool

  val leb : n -> n -> bool

  val ltb : n -> n -> bool

  val size : n -> n

  val pos_div_eucl : positive -> n -> n * n

  val div_eucl : n -> n -> n * n

  val div : n -> n -> n

  val modulo : n -> n -> n

  val to_nat : n -> nat

  val of_nat : nat -> n
 end

val zero : char

val one : char

val shift : bool -> char -> char

val ascii_of_pos : positive -> char

val ascii_of_N : n -> char

val ascii_of_nat : nat -> char

val n_of_digits : bool list -> n

val n_of_ascii : char -> n

val nat_of_ascii : char -> nat

val map : ('a1 -> 'a2) -> 'a1 list -> 'a2 list

val forallb : ('a1 -> bool) -> 'a1 list -> bool

module Z :
 sig
  val double : z -> z

  val succ_double : z -> z

  val pred_double : z -> z

  val pos_sub : positive -> positive -> z

  val add : z -> z -> z

  val opp : z -> z

  val compare : z -> z -> comparison

  val leb : z -> z -> bool

  val abs : z -> z

  val of_nat : nat -> z

  val of_N : n -> z
 end

val eqb0 : char list -> char list -> bool

val append : char list -> char list -> char list

val length0 : char list -> nat

type err =
| ErrValue
| ErrRuntime
| ErrAssert
| ErrNotImpl
| ErrKey
| ErrType
| ErrAttr
| ErrIndex
| ErrTranslation
| ErrOutOfFuel
| ErrOther of char list

type 'a result =
| OK of 'a
| Error of err

val err_name : err -> char list

val mem_str : char list -> char list list -> bool

val list_str_eqb : char list list -> char list list -> bool

val digit_char : nat -> char

val dec_N_fuel : nat -> n -> char list -> char list

val dec_N : n -> char list

val dec_Z : z -> char list

val dec_nat : nat -> char list

val is_digit : char -> bool

val parse_N_acc : char list -> n -> n option

val parse_N : char list -> n option

val parse_Z : char list -> z option

type sexp =
| SAtom of char list
| SList of sexp list

val s_str : char list -> sexp

val s_strs : char list list -> sexp

val s_Z : z -> sexp

val s_nat : nat -> sexp

val s_bool : bool -> sexp

val s_tag : char list -> sexp list -> sexp

val s_err : err -> sexp

val s_result : ('a1 -> sexp) -> 'a1 result -> sexp

val d_str : sexp -> char list option

val d_list : (sexp -> 'a1 option) -> sexp list -> 'a1 list option

val d_strs : sexp -> char list list option

val d_Z : sexp -> z option

val d_bool : sexp -> bool option

val bad_input : sexp

type jblock = { jb_name : char list; jb_script : char list list;
                jb_deps : char list list }

type entry = char list * (char list list * char list list)

type table = entry list

val tget : char list -> table -> (char list list * char list list) option

val textend : char list -> char list list -> table -> table

val step1 : table -> jblock -> table result

val phase1 : jblock list -> table -> table result

val has_key : char list -> table -> bool

val deps_present : table -> bool

val one_pass :
  table -> char list list -> char list list -> bool -> (char list
  list * char list list) * bool

val emit_loop :
  nat -> table -> char list list -> char list list -> char list list result

val gen : jblock list -> char list list result

val d_jblock : sexp -> jblock option

val run_gen : sexp -> sexp

type mrow = { m_py : char list; m_cpp : char list; m_inc : char list list;
              m_ret : char list }

type menv = { e_rows : mrow list; e_module : char list list;
              e_builtins : (char list * char list) list }

val lookup_row : char list -> mrow list -> mrow option

val assoc : char list -> (char list * char list) list -> char list option

type resolution =
| RName of char list
| RCrash

val resolve : menv -> char list -> resolution

val find_row : menv -> char list -> mrow option

val acceptable : char list -> char list -> bool

val cmath_sig : (char list * (nat * bool)) list

val sig_of :
  char list -> (char list * (nat * bool)) list -> (nat * bool) option

val callable_from_query : char list -> bool

val doc_ok : menv -> char list -> bool

val s_row : mrow -> sexp

val audit : menv -> char list list -> sexp

val math_rows : mrow list

val module_names : char list list

val builtin_names : (char list * char list) list

val documented : char list list

val math_env : menv

type literal =
| LInt of z
| LFloat of bool * n * z
| LBool of bool
| LStr of char list

val code : char -> nat

val is_octal : char -> bool

val is_hex : char -> bool

val hex_val : char -> n

val is_alpha_ : char -> bool

val is_idchar : char -> bool

val is_schar : char -> bool

val simple_escape : char -> char option

val byte_of_N : n -> char option

type sstate =
| SNorm
| SEsc
| SOct of nat * n
| SHex of bool * n

val cons_res :
  char option -> (char list * char list) option -> (char list * char list)
  option

val lex_sbody : sstate -> char list -> (char list * char list) option

val all_digits : char list -> bool

val nonempty : char list -> bool

val digits1 : char list -> bool

val break_at :
  (char -> bool) -> char list -> char list * (char * char list) option

val is_dot : char -> bool

val is_e : char -> bool

val is_plus : char -> bool

val is_minus : char -> bool

val exp_value : char list -> z option

val signif_value : char list -> bool -> (n * z) option

val float_value : char list -> (n * z) option

val cpp_float_lit : char list -> bool

val max_int64 : n

val leading_zero : char list -> bool

val int_value : char list -> n option

val is_expch : char -> bool

val ppnum : bool -> char list -> char list * char list

val ident : char list -> char list * char list

val number_value : bool -> char list -> literal option

val starts_number : char list -> bool

val lex_prefix : char list -> (literal * char list) option

val s_literal : literal -> sexp

val run_lex_prefix : sexp -> sexp

type const =
| CInt of z
| CFloat of char list
| CBool of bool
| CStr of char list
| COther

type ctype =
| TInt
| TDouble
| TBool
| TString

val ctype_name : ctype -> char list

val octal3 : nat -> char list

val escape_char : char -> char list

val escape : char list -> char list

val cpp_string_literal : char list -> char list

val nonfinite_repr : char list -> bool

val render : const -> (char list * ctype) result

val render_v0 : const -> (char list * ctype) result

val is_e_lower : char -> bool

val py_exp : char list -> bool

val py_finite_body : char list -> bool

val strip_minus : char list -> bool * char list

val py_float_finite : char list -> bool

val py_float_repr : char list -> bool

val is_word : char -> bool

val starts_with : char list -> char list -> char list option

val literal_at : char list -> char list -> (literal * char list) option

val boundary_after : char list -> bool

val match_name :
  (char list * char list) list -> char list -> (char list * nat) option

val replace_words_aux :
  (char list * char list) list -> nat -> bool -> char list -> char list

val subst_line : (char list * char list) list -> char list -> char list

type backend =
| Atlas
| CmsAod
| CmsMiniaod

val bank_template : backend -> char list -> char list

val bank_line : backend -> char list -> char list -> char list result

val attribute_line : char list -> char list -> char list result

val branch_line : (char list * char list) -> char list

val book_lines :
  backend -> char list -> (char list * char list) list -> char list list

val fill_line : backend -> char list -> char list

val d_const : sexp -> const option

val d_backend : sexp -> backend option

val s_rendered : (char list * ctype) -> sexp

val run_render : sexp -> sexp

val run_render_v0 : sexp -> sexp

val run_bank : sexp -> sexp

val run_attribute : sexp -> sexp

val d_leaf : sexp -> (char list * char list) option

val run_book : sexp -> sexp

val run_literal_at : sexp -> sexp

val run_float_grammar : sexp -> sexp

val dispatch : char list -> sexp -> sexp
