(* C++-subset intermediate representation of the per-event code the translator emits
   (the lines of `query_code`, `book_code`, `class_decl` rendered into query.cxx / Analyzer.cc).
   The harness parses the *implementation's own emitted text* into this IR (tools/fv/cxxparse.py,
   fail-closed) and `print_block` below renders it back: every check compares the re-rendered lines with
   the emitted lines, so the IR a theorem speaks about is the text the C++ compiler reads.
   Executable definitions only; no proofs here. *)
From FV Require Import Base.Prelude.

(* ---------- expressions ---------- *)
Inductive cexp :=
| CVar (x : string)
| CInt (z : Z)
| CDbl (text : string) (n : Z) (d : positive)   (* literal text as emitted and its exact rational value *)
| CBool (b : bool)
| CStr (s : string)                              (* literal text between the quotes, as emitted *)
| CBin (op : string) (a b : cexp)                (* (a op b): + - * / % < <= > >= == != , printed fully parenthesised *)
| CUn (op : string) (a : cexp)                   (* (op(a)) : + - ! *)
| CNot (a : cexp)                                (* !a   (the and/or lowering's test) *)
| CDeref (a : cexp)                              (* pointer dereference, star a *)
| CCall (f : string) (args : cexps)              (* f(a,b): std::sin, std::pow, user functions *)
| CMeth (o : cexp) (arrow : bool) (m : string) (args : cexps)   (* o.m(args) / o->m(args) *)
| CField (o : cexp) (arrow : bool) (m : string)  (* o.m / o->m *)
| CCast (ty : string) (a : cexp)                 (* static_cast<ty>(a) *)
| CSubI (a b : cexp)                             (* a - b  unparenthesised (Range's vector size) *)
| COpaque (text : string) (idents : list string) (* anything else: text and the identifier tokens it mentions *)
with cexps := CNil | CCons (e : cexp) (r : cexps).

Scheme cexp_mut := Induction for cexp Sort Prop
with cexps_mut := Induction for cexps Sort Prop.
Combined Scheme cexp_mutind from cexp_mut, cexps_mut.

Fixpoint cexps_to_list (l : cexps) : list cexp :=
  match l with CNil => [] | CCons e r => e :: cexps_to_list r end.
Fixpoint cexps_of_list (l : list cexp) : cexps :=
  match l with [] => CNil | e :: r => CCons e (cexps_of_list r) end.

(* ---------- statements ---------- *)
Record decl := { d_type : string; d_name : string; d_init : option cexp }.

Inductive stmt :=
| SSet (x : string) (cast : option string) (e : cexp)      (* x = e;   x = static_cast<T>(e); *)
| SPush (x : string) (cast : option string) (e : cexp)     (* x.push_back(e); *)
| SClear (x : string)                                      (* x.clear(); *)
| SFill (line : string)                                    (* the backend's Fill line *)
| SThrow (line : string)                                   (* the throw line of First *)
| SFetch (idiom : string) (target ctype bank : string) (lines : list string)
      (* the collection retrieval block: open brace, lines mentioning the bank, target = result, close brace *)
| SIota (vec start : string)                               (* std::iota(vec.begin(), vec.end(), start); *)
| SUser (lines : list string) (idents : list string) (target : option string)
      (* an injected user C++ block  { lines...  target = result; }  (opaque) *)
| SLine (line : string) (idents : list string)             (* any other single line (opaque) *)
| SFor (x : string) (e : cexp) (b : block)                 (* for (auto &&x : e) { ... } *)
| SIf (c : cexp) (b : block) (els : option block)          (* if (c) {...} [else {...}] *)
| SBlk (b : block)
with block := Blk (ds : list decl) (body : stmts)
with stmts := SNil | SCons (s : stmt) (r : stmts).

Scheme stmt_mut := Induction for stmt Sort Prop
with block_mut := Induction for block Sort Prop
with stmts_mut := Induction for stmts Sort Prop.
Combined Scheme sbs_mutind from stmt_mut, block_mut, stmts_mut.

Fixpoint stmts_to_list (l : stmts) : list stmt :=
  match l with SNil => [] | SCons s r => s :: stmts_to_list r end.
Fixpoint stmts_of_list (l : list stmt) : stmts :=
  match l with [] => SNil | s :: r => SCons s (stmts_of_list r) end.

(* class-level declarations and the booking of the output tree *)
Record member := { m_type : string; m_name : string }.
Record branch := { br_name : string; br_var : string }.
Record program := {
  p_members : list member;     (* class_decl: one per line: type name; *)
  p_tree : string;             (* tree name of the booking statement *)
  p_branches : list branch;    (* Branch(name, address of var) in order *)
  p_book_extra : list string;  (* other booking lines (token initialisations ...) *)
  p_body : block               (* the per-event code *)
}.

(* ---------- printer (mirrors statement.py emit + executor._cpp_source_emitter indentation) ---------- *)
Fixpoint pr_exp (e : cexp) : string :=
  match e with
  | CVar x => x
  | CInt z => dec_Z z
  | CDbl t _ _ => t
  | CBool b => if b then "true" else "false"
  | CStr s => """" +++ s +++ """"
  | CBin op a b => "(" +++ pr_exp a +++ op +++ pr_exp b +++ ")"
  | CUn op a => "(" +++ op +++ "(" +++ pr_exp a +++ "))"
  | CNot a => "!" +++ pr_exp a
  | CDeref a => match a with
                | CDeref _ => "*" +++ pr_exp a
                | _ => "*" +++ pr_exp a
                end
  | CCall f args => f +++ "(" +++ pr_args args +++ ")"
  | CMeth o arrow m args => pr_obj o +++ (if arrow then "->" else ".") +++ m +++ "(" +++ pr_args args +++ ")"
  | CField o arrow m => pr_obj o +++ (if arrow then "->" else ".") +++ m
  | CCast ty a => "static_cast<" +++ ty +++ ">(" +++ pr_exp a +++ ")"
  | CSubI a b => pr_exp a +++ " - " +++ pr_exp b
  | COpaque t _ => t
  end
with pr_obj (e : cexp) : string :=
  (* object position of a member access: a dereference is parenthesised *)
  match e with
  | CDeref a => "(*" +++ pr_obj a +++ ")"
  | CVar x => x
  | CInt z => dec_Z z
  | CDbl t _ _ => t
  | CBool b => if b then "true" else "false"
  | CStr s => """" +++ s +++ """"
  | CBin op a b => "(" +++ pr_exp a +++ op +++ pr_exp b +++ ")"
  | CUn op a => "(" +++ op +++ "(" +++ pr_exp a +++ "))"
  | CNot a => "!" +++ pr_exp a
  | CCall f args => f +++ "(" +++ pr_args args +++ ")"
  | CMeth o arrow m args => pr_obj o +++ (if arrow then "->" else ".") +++ m +++ "(" +++ pr_args args +++ ")"
  | CField o arrow m => pr_obj o +++ (if arrow then "->" else ".") +++ m
  | CCast ty a => "static_cast<" +++ ty +++ ">(" +++ pr_exp a +++ ")"
  | CSubI a b => pr_exp a +++ " - " +++ pr_exp b
  | COpaque t _ => t
  end
with pr_args (l : cexps) : string :=
  match l with
  | CNil => ""
  | CCons e CNil => pr_exp e
  | CCons e r => pr_exp e +++ "," +++ pr_args r
  end.

Fixpoint indent (n : nat) : string := match n with O => "" | S k => "  " +++ indent k end.

Definition pr_decl (d : decl) : string :=
  d_type d +++ " " +++ d_name d +++
  match d_init d with None => "" | Some e => " (" +++ pr_exp e +++ ")" end +++ ";".

Definition pr_cast (cast : option string) (e : cexp) : string :=
  match cast with None => pr_exp e | Some t => "static_cast<" +++ t +++ ">(" +++ pr_exp e +++ ")" end.

Fixpoint pr_stmt (n : nat) (s : stmt) : list string :=
  match s with
  | SSet x c e => [indent n +++ x +++ " = " +++ pr_cast c e +++ ";"]
  | SPush x c e => [indent n +++ x +++ ".push_back(" +++ pr_cast c e +++ ");"]
  | SClear x => [indent n +++ x +++ ".clear();"]
  | SFill l => [indent n +++ l]
  | SThrow l => [indent n +++ l]
  | SFetch _ target _ _ lines =>
      [indent n +++ "{"] ++ map (fun l => indent (S n) +++ l) lines
      ++ [indent (S n) +++ target +++ " = result;"; indent n +++ "}"]
  | SIota v b => [indent n +++ "std::iota(" +++ v +++ ".begin()," +++ v +++ ".end()," +++ b +++ ");"]
  | SUser lines _ target =>
      [indent n +++ "{"] ++ map (fun l => indent (S n) +++ l) lines
      ++ match target with Some t => [indent (S n) +++ t +++ " = result;"] | None => [] end
      ++ [indent n +++ "}"]
  | SLine l _ => [indent n +++ l]
  | SFor x e b => (indent n +++ "for (auto &&" +++ x +++ " : " +++ pr_exp e +++ ")") :: pr_block n b
  | SIf c b els =>
      ((indent n +++ "if (" +++ pr_exp c +++ ")") :: pr_block n b)
      ++ match els with None => [] | Some b2 => (indent n +++ "else") :: pr_block n b2 end
  | SBlk b => pr_block n b
  end
with pr_block (n : nat) (b : block) : list string :=
  match b with
  | Blk ds body =>
      [indent n +++ "{"] ++ map (fun d => indent (S n) +++ pr_decl d) ds ++ pr_stmts (S n) body ++ [indent n +++ "}"]
  end
with pr_stmts (n : nat) (l : stmts) : list string :=
  match l with SNil => [] | SCons s r => pr_stmt n s ++ pr_stmts n r end.

Definition print_block (b : block) : list string := pr_block 0 b.
Definition print_members (ms : list member) : list string :=
  map (fun m => m_type m +++ " " +++ m_name m +++ ";") ms.

(* ---------- identifier occurrences (used by the static checkers) ---------- *)
Fixpoint exp_vars (e : cexp) : list string :=
  match e with
  | CVar x => [x]
  | CInt _ | CDbl _ _ _ | CBool _ | CStr _ => []
  | CBin _ a b => exp_vars a ++ exp_vars b
  | CUn _ a | CNot a | CDeref a | CCast _ a => exp_vars a
  | CCall _ args => args_vars args
  | CMeth o _ _ args => exp_vars o ++ args_vars args
  | CField o _ _ => exp_vars o
  | CSubI a b => exp_vars a ++ exp_vars b
  | COpaque _ ids => ids
  end
with args_vars (l : cexps) : list string :=
  match l with CNil => [] | CCons e r => exp_vars e ++ args_vars r end.

(* ---------- wire format ---------- *)
Fixpoint d_cexp_fuel (fuel : nat) (s : sexp) {struct fuel} : option cexp :=
  match fuel with
  | O => None
  | S f =>
    let dargs := fix dargs (l : list sexp) : option cexps :=
                   match l with
                   | [] => Some CNil
                   | x :: r => match d_cexp_fuel f x, dargs r with
                               | Some e, Some r' => Some (CCons e r') | _, _ => None end
                   end in
    match s with
    | SList [SAtom "var"; SAtom x] => Some (CVar x)
    | SList [SAtom "int"; z] => option_map CInt (d_Z z)
    | SList [SAtom "dbl"; SAtom t; n; d] =>
        match d_Z n, d_Z d with
        | Some n', Some (Zpos d') => Some (CDbl t n' d') | _, _ => None end
    | SList [SAtom "bool"; b] => option_map CBool (d_bool b)
    | SList [SAtom "str"; SAtom t] => Some (CStr t)
    | SList [SAtom "bin"; SAtom op; a; b] =>
        match d_cexp_fuel f a, d_cexp_fuel f b with Some a', Some b' => Some (CBin op a' b') | _, _ => None end
    | SList [SAtom "un"; SAtom op; a] => option_map (CUn op) (d_cexp_fuel f a)
    | SList [SAtom "not"; a] => option_map CNot (d_cexp_fuel f a)
    | SList [SAtom "deref"; a] => option_map CDeref (d_cexp_fuel f a)
    | SList [SAtom "call"; SAtom g; SList args] => option_map (CCall g) (dargs args)
    | SList [SAtom "meth"; o; ar; SAtom m; SList args] =>
        match d_cexp_fuel f o, d_bool ar, dargs args with
        | Some o', Some ar', Some args' => Some (CMeth o' ar' m args') | _, _, _ => None end
    | SList [SAtom "field"; o; ar; SAtom m] =>
        match d_cexp_fuel f o, d_bool ar with Some o', Some ar' => Some (CField o' ar' m) | _, _ => None end
    | SList [SAtom "cast"; SAtom t; a] => option_map (CCast t) (d_cexp_fuel f a)
    | SList [SAtom "subi"; a; b] =>
        match d_cexp_fuel f a, d_cexp_fuel f b with Some a', Some b' => Some (CSubI a' b') | _, _ => None end
    | SList [SAtom "opaque"; SAtom t; ids] => option_map (COpaque t) (d_strs ids)
    | _ => None
    end
  end.

Fixpoint sexp_depth (s : sexp) : nat :=
  match s with
  | SAtom _ => 1
  | SList l => S (fold_right (fun x acc => Nat.max (sexp_depth x) acc) 0 l)
  end.
Definition d_cexp (s : sexp) : option cexp := d_cexp_fuel (S (sexp_depth s)) s.

Definition d_opt {A} (d : sexp -> option A) (s : sexp) : option (option A) :=
  match s with
  | SList [] => Some None
  | SList [x] => option_map Some (d x)
  | _ => None
  end.

Definition d_decl (s : sexp) : option decl :=
  match s with
  | SList [SAtom t; SAtom n; i] =>
      match d_opt d_cexp i with Some i' => Some {| d_type := t; d_name := n; d_init := i' |} | None => None end
  | _ => None
  end.

Fixpoint d_stmt_fuel (fuel : nat) (s : sexp) {struct fuel} : option stmt :=
  match fuel with
  | O => None
  | S f =>
    let dstmts := fix dstmts (l : list sexp) : option stmts :=
                    match l with
                    | [] => Some SNil
                    | x :: r => match d_stmt_fuel f x, dstmts r with
                                | Some a, Some r' => Some (SCons a r') | _, _ => None end
                    end in
    let dblock := fun (b : sexp) =>
                    match b with
                    | SList [SAtom "blk"; SList ds; SList body] =>
                        match d_list d_decl ds, dstmts body with
                        | Some ds', Some body' => Some (Blk ds' body') | _, _ => None end
                    | _ => None
                    end in
    match s with
    | SList [SAtom "set"; SAtom x; c; e] =>
        match d_opt d_str c, d_cexp e with Some c', Some e' => Some (SSet x c' e') | _, _ => None end
    | SList [SAtom "push"; SAtom x; c; e] =>
        match d_opt d_str c, d_cexp e with Some c', Some e' => Some (SPush x c' e') | _, _ => None end
    | SList [SAtom "clear"; SAtom x] => Some (SClear x)
    | SList [SAtom "fill"; SAtom l] => Some (SFill l)
    | SList [SAtom "throw"; SAtom l] => Some (SThrow l)
    | SList [SAtom "fetch"; SAtom idiom; SAtom target; SAtom ct; SAtom bank; lines] =>
        option_map (SFetch idiom target ct bank) (d_strs lines)
    | SList [SAtom "iota"; SAtom v; SAtom b] => Some (SIota v b)
    | SList [SAtom "user"; lines; ids; t] =>
        match d_strs lines, d_strs ids, d_opt d_str t with
        | Some l', Some i', Some t' => Some (SUser l' i' t') | _, _, _ => None end
    | SList [SAtom "line"; SAtom l; ids] => option_map (SLine l) (d_strs ids)
    | SList [SAtom "for"; SAtom x; e; b] =>
        match d_cexp e, dblock b with Some e', Some b' => Some (SFor x e' b') | _, _ => None end
    | SList [SAtom "if"; c; b; els] =>
        match d_cexp c, dblock b, d_opt dblock els with
        | Some c', Some b', Some e' => Some (SIf c' b' e') | _, _, _ => None end
    | SList [SAtom "block"; b] => option_map SBlk (dblock b)
    | _ => None
    end
  end.

Definition d_block (s : sexp) : option block :=
  match d_stmt_fuel (S (S (sexp_depth s))) (SList [SAtom "block"; s]) with
  | Some (SBlk b) => Some b
  | _ => None
  end.

Definition d_member (s : sexp) : option member :=
  match s with SList [SAtom t; SAtom n] => Some {| m_type := t; m_name := n |} | _ => None end.
Definition d_branch (s : sexp) : option branch :=
  match s with SList [SAtom n; SAtom v] => Some {| br_name := n; br_var := v |} | _ => None end.

Definition d_program (s : sexp) : option program :=
  match s with
  | SList [SList ms; SAtom tree; SList brs; extra; body] =>
      match d_list d_member ms, d_list d_branch brs, d_strs extra, d_block body with
      | Some ms', Some brs', Some ex', Some b' =>
          Some {| p_members := ms'; p_tree := tree; p_branches := brs'; p_book_extra := ex'; p_body := b' |}
      | _, _, _, _ => None
      end
  | _ => None
  end.

Definition run_print (s : sexp) : sexp :=
  match d_block s with
  | Some b => s_tag "ok" [s_strs (print_block b)]
  | None => bad_input
  end.
