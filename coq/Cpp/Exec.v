(* Big-step semantics of the C++ subset (Cpp/IR.v) over a stand-in event data model.
   Total and structural: every loop is a for-each over a finite vector value, so there is no fuel.
   Outcomes: ROk | RFault (the job fails loudly on this event) | RStuck (something a C++ compiler or the
   C++ abstract machine leaves undefined: unbound name, read of an uninitialised scalar, ill-typed
   operation, opaque text the model cannot execute).
   Class members persist from one event to the next exactly as the members of the C++ analysis object do
   (run_job); block locals are re-created each time their block is entered, declarations in order, with
   their initialisers evaluated AT BLOCK ENTRY (C++ semantics - this is what makes hoisted initialisers
   that read later-computed values wrong).
   Executable definitions only; no proofs here. *)
From FV Require Import Base.Prelude Cpp.IR.
From Coq Require Import QArith Qreduction.
Close Scope Q_scope.

Inductive value :=
| VInt (z : Z)
| VDbl (q : Q)
| VBool (b : bool)
| VObj (o : nat)
| VNull
| VVec (l : list value)
| VStr (s : string)
| VSym (f : string) (args : list value)      (* uninterpreted function application (math / user C++) *)
| VUninit.

Inductive fault := FThrow | FOutOfRange | FNullDeref | FDivZero | FRetrieve.
Inductive stuck := KUnbound (x : string) | KUninit (x : string) | KType (what : string) | KOpaque (what : string).

Inductive res (A : Type) := ROk (a : A) | RFault (f : fault) | RStuck (k : stuck).
Arguments ROk {A} a.
Arguments RFault {A} f.
Arguments RStuck {A} k.

Definition rbind {A B} (r : res A) (f : A -> res B) : res B :=
  match r with ROk a => f a | RFault x => RFault x | RStuck k => RStuck k end.
Notation "'rdo' x <- r ; k" := (rbind r (fun x => k)) (at level 200, x name, r at level 100, k at level 200).

(* ---------- the event data model ---------- *)
Record event := {
  ev_colls : list ((string * string) * value);   (* (container type text, bank) -> VVec of VObj | VObj *)
  ev_meths : list ((nat * string) * value)       (* (object, method or field name) -> value *)
}.

Fixpoint assoc_ss (k : string * string) (l : list ((string * string) * value)) : option value :=
  match l with
  | [] => None
  | ((a, b), v) :: r => if String.eqb a (fst k) && String.eqb b (snd k) then Some v else assoc_ss k r
  end.
Fixpoint assoc_ns (k : nat * string) (l : list ((nat * string) * value)) : option value :=
  match l with
  | [] => None
  | ((a, b), v) :: r => if Nat.eqb a (fst k) && String.eqb b (snd k) then Some v else assoc_ns k r
  end.

(* ---------- environments ---------- *)
Definition binding := (string * (string * value))%type.    (* name, declared type text, value *)
Definition frame := list binding.
Record state := { frames : list frame; members : frame; rows : list (list value) }.

Fixpoint frame_get (x : string) (f : frame) : option (string * value) :=
  match f with [] => None | (y, tv) :: r => if String.eqb x y then Some tv else frame_get x r end.
Fixpoint frame_set (x : string) (v : value) (f : frame) : option frame :=
  match f with
  | [] => None
  | (y, (t, w)) :: r =>
      if String.eqb x y then Some ((y, (t, v)) :: r)
      else match frame_set x v r with Some r' => Some ((y, (t, w)) :: r') | None => None end
  end.
Fixpoint frames_get (x : string) (fs : list frame) : option (string * value) :=
  match fs with
  | [] => None
  | f :: r => match frame_get x f with Some tv => Some tv | None => frames_get x r end
  end.
Fixpoint frames_set (x : string) (v : value) (fs : list frame) : option (list frame) :=
  match fs with
  | [] => None
  | f :: r => match frame_set x v f with
              | Some f' => Some (f' :: r)
              | None => match frames_set x v r with Some r' => Some (f :: r') | None => None end
              end
  end.

Definition lookup (x : string) (st : state) : option (string * value) :=
  match frames_get x (frames st) with Some tv => Some tv | None => frame_get x (members st) end.
Definition assign (x : string) (v : value) (st : state) : option state :=
  match frames_set x v (frames st) with
  | Some fs => Some {| frames := fs; members := members st; rows := rows st |}
  | None => match frame_set x v (members st) with
            | Some m => Some {| frames := frames st; members := m; rows := rows st |}
            | None => None
            end
  end.

(* ---------- numbers ---------- *)
Definition qz (z : Z) : Q := inject_Z z.
Definition qtrunc (q : Q) : Z := Z.quot (Qnum q) (Zpos (Qden q)).
Definition q_is0 (q : Q) : bool := Z.eqb (Qnum q) 0.
Definition qlt (a b : Q) : bool := Qle_bool a b && negb (Qeq_bool a b).

Fixpoint prefix (p s : string) : bool :=
  match p, s with
  | EmptyString, _ => true
  | String a p', String b s' => Ascii.eqb a b && prefix p' s'
  | _, _ => false
  end.
Definition is_vector_type (t : string) : bool := prefix "std::vector<" t.
(* element type of std::vector<T>: the text between the first '<' and the last '>' *)
Fixpoint drop_last (s : string) : string :=
  match s with EmptyString => EmptyString | String c EmptyString => EmptyString | String c r => String c (drop_last r) end.
Definition vector_elem_type (t : string) : string :=
  drop_last (substring 12 (String.length t - 12) t).

(* implicit conversion on initialisation / assignment / push_back to a target of type text t *)
Definition conv (t : string) (v : value) : value :=
  if String.eqb t "int" then
    match v with VDbl q => VInt (qtrunc q) | VBool b => VInt (if b then 1 else 0) | _ => v end
  else if String.eqb t "double" || String.eqb t "float" then
    match v with VInt z => VDbl (qz z) | VBool b => VDbl (qz (if b then 1 else 0)) | _ => v end
  else if String.eqb t "bool" then
    match v with VInt z => VBool (negb (Z.eqb z 0)) | VDbl q => VBool (negb (q_is0 q)) | _ => v end
  else v.

Definition num_of (v : value) : option (Z + Q) :=
  match v with
  | VInt z => Some (inl z)
  | VBool b => Some (inl (if b then 1 else 0)%Z)
  | VDbl q => Some (inr q)
  | _ => None
  end.
Definition to_q (n : Z + Q) : Q := match n with inl z => qz z | inr q => q end.
Definition is_sym (v : value) : bool := match v with VSym _ _ => true | _ => false end.

Definition arith (op : string) (a b : value) : res value :=
  if is_sym a || is_sym b then ROk (VSym op [a; b]) else
  match num_of a, num_of b with
  | Some (inl x), Some (inl y) =>
      if String.eqb op "+" then ROk (VInt (x + y))
      else if String.eqb op "-" then ROk (VInt (x - y))
      else if String.eqb op "*" then ROk (VInt (x * y))
      else if String.eqb op "/" then (if Z.eqb y 0 then RFault FDivZero else ROk (VInt (Z.quot x y)))
      else if String.eqb op "%" then (if Z.eqb y 0 then RFault FDivZero else ROk (VInt (Z.rem x y)))
      else if String.eqb op "<" then ROk (VBool (Z.ltb x y))
      else if String.eqb op "<=" then ROk (VBool (Z.leb x y))
      else if String.eqb op ">" then ROk (VBool (Z.ltb y x))
      else if String.eqb op ">=" then ROk (VBool (Z.leb y x))
      else if String.eqb op "==" then ROk (VBool (Z.eqb x y))
      else if String.eqb op "!=" then ROk (VBool (negb (Z.eqb x y)))
      else RStuck (KType ("operator " +++ op))
  | Some x, Some y =>
      let p := to_q x in let q := to_q y in
      if String.eqb op "+" then ROk (VDbl (Qred (p + q)%Q))
      else if String.eqb op "-" then ROk (VDbl (Qred (p - q)%Q))
      else if String.eqb op "*" then ROk (VDbl (Qred (p * q)%Q))
      else if String.eqb op "/" then (if q_is0 q then RFault FDivZero else ROk (VDbl (Qred (p / q)%Q)))
      else if String.eqb op "%" then RStuck (KType "% with a floating operand is ill-formed C++")
      else if String.eqb op "<" then ROk (VBool (qlt p q))
      else if String.eqb op "<=" then ROk (VBool (Qle_bool p q))
      else if String.eqb op ">" then ROk (VBool (qlt q p))
      else if String.eqb op ">=" then ROk (VBool (Qle_bool q p))
      else if String.eqb op "==" then ROk (VBool (Qeq_bool p q))
      else if String.eqb op "!=" then ROk (VBool (negb (Qeq_bool p q)))
      else RStuck (KType ("operator " +++ op))
  | _, _ => RStuck (KType ("operands of " +++ op))
  end.

Definition unary (op : string) (a : value) : res value :=
  if is_sym a then ROk (VSym ("u" +++ op) [a]) else
  if String.eqb op "!" then
    match a with
    | VBool b => ROk (VBool (negb b))
    | VInt z => ROk (VBool (Z.eqb z 0))
    | VDbl q => ROk (VBool (q_is0 q))
    | _ => RStuck (KType "operand of !")
    end
  else match num_of a with
       | Some (inl z) => if String.eqb op "-" then ROk (VInt (- z)) else if String.eqb op "+" then ROk (VInt z)
                         else RStuck (KType ("unary " +++ op))
       | Some (inr q) => if String.eqb op "-" then ROk (VDbl (Qred (- q)%Q)) else if String.eqb op "+" then ROk (VDbl q)
                         else RStuck (KType ("unary " +++ op))
       | None => RStuck (KType ("operand of unary " +++ op))
       end.

Definition truth (v : value) : res bool :=
  match v with
  | VBool b => ROk b
  | VInt z => ROk (negb (Z.eqb z 0))
  | VDbl q => ROk (negb (q_is0 q))
  | VSym _ _ => RStuck (KOpaque "condition depends on an uninterpreted function")
  | _ => RStuck (KType "condition")
  end.

(* std:: math functions take double arguments *)
Definition math_arg (v : value) : value :=
  match v with VInt z => VDbl (qz z) | VBool b => VDbl (qz (if b then 1 else 0)) | _ => v end.

Definition call_method (ev : event) (o : value) (m : string) (args : list value) : res value :=
  match o with
  | VNull => RFault FNullDeref
  | VObj id =>
      match args with
      | [] => match assoc_ns (id, m) (ev_meths ev) with
              | Some v => ROk v
              | None => ROk (VSym m [VObj id])
              end
      | _ => ROk (VSym m (VObj id :: args))
      end
  | VVec l =>
      if String.eqb m "at" then
        match args with
        | [VInt i] => if (Z.ltb i 0)%Z then RFault FOutOfRange
                      else match nth_error l (Z.to_nat i) with Some v => ROk v | None => RFault FOutOfRange end
        | _ => RStuck (KType "argument of at()")
        end
      else if String.eqb m "size" then ROk (VInt (Z.of_nat (List.length l)))
      else RStuck (KType ("method " +++ m +++ " of a vector"))
  | VSym f a => ROk (VSym m (VSym f a :: args))
  | _ => RStuck (KType ("member access ." +++ m +++ " on a non-object"))
  end.

Fixpoint eval (ev : event) (st : state) (e : cexp) {struct e} : res value :=
  match e with
  | CVar x => match lookup x st with
              | None => RStuck (KUnbound x)
              | Some (_, VUninit) => RStuck (KUninit x)
              | Some (_, v) => ROk v
              end
  | CInt z => ROk (VInt z)
  | CDbl _ n d => ROk (VDbl (Qred (n # d)%Q))
  | CBool b => ROk (VBool b)
  | CStr s => ROk (VStr s)
  | CBin op a b => rdo x <- eval ev st a; rdo y <- eval ev st b; arith op x y
  | CUn op a => rdo x <- eval ev st a; unary op x
  | CNot a => rdo x <- eval ev st a; unary "!" x
  | CDeref a => rdo x <- eval ev st a; match x with VNull => RFault FNullDeref | _ => ROk x end
  | CCall f args => rdo vs <- eval_args ev st args; ROk (VSym f (map math_arg vs))
  | CMeth o _ m args => rdo x <- eval ev st o; rdo vs <- eval_args ev st args; call_method ev x m vs
  | CField o _ m => rdo x <- eval ev st o; call_method ev x m []
  | CCast t a => rdo x <- eval ev st a; ROk (conv t x)
  | CSubI a b => rdo x <- eval ev st a; rdo y <- eval ev st b; arith "-" x y
  | COpaque t _ => RStuck (KOpaque t)
  end
with eval_args (ev : event) (st : state) (l : cexps) {struct l} : res (list value) :=
  match l with
  | CNil => ROk []
  | CCons e r => rdo v <- eval ev st e; rdo vs <- eval_args ev st r; ROk (v :: vs)
  end.

(* ---------- statements ---------- *)
Definition default_value (t : string) : value := if is_vector_type t then VVec [] else VUninit.

Definition init_value (t : string) (v : value) : value :=
  if is_vector_type t then
    match v with VInt n => VVec (repeat (conv (vector_elem_type t) (VInt 0)) (Z.to_nat n)) | _ => v end
  else conv t v.

Definition push_frame (st : state) : state :=
  {| frames := [] :: frames st; members := members st; rows := rows st |}.
Definition pop_frame (st : state) : state :=
  {| frames := tl (frames st); members := members st; rows := rows st |}.
Definition declare (x t : string) (v : value) (st : state) : state :=
  match frames st with
  | f :: r => {| frames := (f ++ [(x, (t, v))]) :: r; members := members st; rows := rows st |}
  | [] => {| frames := [[(x, (t, v))]]; members := members st; rows := rows st |}
  end.

Fixpoint run_decls (ev : event) (ds : list decl) (st : state) : res state :=
  match ds with
  | [] => ROk st
  | d :: r =>
      match d_init d with
      | None => run_decls ev r (declare (d_name d) (d_type d) (default_value (d_type d)) st)
      | Some e => rdo v <- eval ev st e;
                  run_decls ev r (declare (d_name d) (d_type d) (init_value (d_type d) v) st)
      end
  end.

Definition fill_row (brs : list branch) (st : state) : list value :=
  map (fun b => match frame_get (br_var b) (members st) with Some (_, v) => v | None => VUninit end) brs.

Fixpoint iota (n : nat) (start : Z) : list value :=
  match n with O => [] | S k => VInt start :: iota k (start + 1) end.

Section WithProgram.
Variable brs : list branch.
Variable ev : event.

Fixpoint exec_stmt (s : stmt) (st : state) {struct s} : res state :=
  match s with
  | SSet x c e =>
      rdo v <- eval ev st e;
      match lookup x st with
      | None => RStuck (KUnbound x)
      | Some (t, _) =>
          let v1 := match c with Some ct => conv ct v | None => v end in
          match assign x (conv t v1) st with Some st' => ROk st' | None => RStuck (KUnbound x) end
      end
  | SPush x c e =>
      rdo v <- eval ev st e;
      match lookup x st with
      | Some (t, VVec l) =>
          let v1 := match c with Some ct => conv ct v | None => v end in
          match assign x (VVec (l ++ [conv (vector_elem_type t) v1])) st with
          | Some st' => ROk st' | None => RStuck (KUnbound x) end
      | Some _ => RStuck (KType ("push_back on non-vector " +++ x))
      | None => RStuck (KUnbound x)
      end
  | SClear x =>
      match lookup x st with
      | Some (_, VVec _) => match assign x (VVec []) st with Some st' => ROk st' | None => RStuck (KUnbound x) end
      | Some _ => RStuck (KType ("clear on non-vector " +++ x))
      | None => RStuck (KUnbound x)
      end
  | SFill _ =>
      ROk {| frames := frames st; members := members st; rows := rows st ++ [fill_row brs st] |}
  | SThrow _ => RFault FThrow
  | SFetch _ target ct bank _ =>
      match assoc_ss (ct, bank) (ev_colls ev) with
      | None => RFault FRetrieve
      | Some v => match assign target v st with Some st' => ROk st' | None => RStuck (KUnbound target) end
      end
  | SIota v b =>
      match lookup v st, lookup b st with
      | Some (_, VVec l), Some (_, VInt z) =>
          match assign v (VVec (iota (List.length l) z)) st with Some st' => ROk st' | None => RStuck (KUnbound v) end
      | Some _, Some (_, VUninit) => RStuck (KUninit b)
      | Some _, Some _ => RStuck (KType "std::iota operands")
      | _, _ => RStuck (KUnbound v)
      end
  | SUser _ _ _ => RStuck (KOpaque "user C++ block")
  | SLine l _ => RStuck (KOpaque l)
  | SFor x e b =>
      rdo c <- eval ev st e;
      match c with
      | VVec l =>
          (fix loop (l : list value) (st : state) {struct l} : res state :=
             match l with
             | [] => ROk st
             | v :: r =>
                 rdo st' <- exec_block b [(x, ("auto", v))] st;
                 loop r st'
             end) l st
      | _ => RStuck (KType "range of a for loop is not a vector")
      end
  | SIf c b els =>
      rdo v <- eval ev st c;
      rdo t <- truth v;
      if t then exec_block b [] st
      else match els with Some b2 => exec_block b2 [] st | None => ROk st end
  | SBlk b => exec_block b [] st
  end
with exec_block (b : block) (pre : frame) (st : state) {struct b} : res state :=
  match b with
  | Blk ds body =>
      let st0 := {| frames := pre :: frames st; members := members st; rows := rows st |} in
      rdo st1 <- run_decls ev ds st0;
      rdo st2 <- exec_stmts body st1;
      ROk (pop_frame st2)
  end
with exec_stmts (l : stmts) (st : state) {struct l} : res state :=
  match l with
  | SNil => ROk st
  | SCons s r => rdo st' <- exec_stmt s st; exec_stmts r st'
  end.
End WithProgram.

(* ---------- jobs ---------- *)
Definition initial_members (ms : list member) : frame :=
  map (fun m => (m_name m, (m_type m, default_value (m_type m)))) ms.

(* one event, starting from the given member state: rows written + member state afterwards *)
Definition run_event (p : program) (ms : frame) (ev : event) : res (list (list value) * frame) :=
  match exec_block (p_branches p) ev (p_body p) [] {| frames := []; members := ms; rows := [] |} with
  | ROk st => ROk (rows st, members st)
  | RFault f => RFault f
  | RStuck k => RStuck k
  end.

(* a job: events in order through ONE analysis object.  A faulting event aborts the job (that is what a
   thrown exception / failed ANA_CHECK does); the result keeps the rows written before it. *)
Inductive job_result := JDone (rows : list (list (list value))) | JAbort (rows : list (list (list value))) (at_event : nat) (f : fault)
                      | JStuck (at_event : nat) (k : stuck).

Fixpoint run_job_from (p : program) (ms : frame) (evs : list event) (n : nat) (acc : list (list (list value))) : job_result :=
  match evs with
  | [] => JDone acc
  | ev :: r =>
      match run_event p ms ev with
      | ROk (rs, ms') => run_job_from p ms' r (S n) (acc ++ [rs])
      | RFault f => JAbort acc n f
      | RStuck k => JStuck n k
      end
  end.
Definition run_job (p : program) (evs : list event) : job_result :=
  run_job_from p (initial_members (p_members p)) evs 0 [].

(* ---------- wire format ---------- *)
Fixpoint s_value (v : value) : sexp :=
  match v with
  | VInt z => s_tag "i" [s_Z z]
  | VDbl q => s_tag "d" [s_Z (Qnum (Qred q)); s_Z (Zpos (Qden (Qred q)))]
  | VBool b => s_tag "b" [s_bool b]
  | VObj o => s_tag "o" [s_nat o]
  | VNull => s_tag "null" []
  | VVec l => s_tag "v" (map s_value l)
  | VStr s => s_tag "s" [SAtom s]
  | VSym f a => s_tag "sym" (SAtom f :: map s_value a)
  | VUninit => s_tag "uninit" []
  end.

Fixpoint d_value_fuel (fuel : nat) (s : sexp) {struct fuel} : option value :=
  match fuel with
  | O => None
  | S f =>
    let dl := fix dl (l : list sexp) : option (list value) :=
                match l with
                | [] => Some []
                | x :: r => match d_value_fuel f x, dl r with Some a, Some r' => Some (a :: r') | _, _ => None end
                end in
    match s with
    | SList [SAtom "i"; z] => option_map VInt (d_Z z)
    | SList [SAtom "d"; n; d] => match d_Z n, d_Z d with
                                 | Some n', Some (Zpos d') => Some (VDbl (Qred (n' # d')%Q)) | _, _ => None end
    | SList [SAtom "b"; b] => option_map VBool (d_bool b)
    | SList [SAtom "o"; n] => option_map VObj (d_nat n)
    | SList [SAtom "null"] => Some VNull
    | SList (SAtom "v" :: l) => option_map VVec (dl l)
    | SList [SAtom "s"; SAtom t] => Some (VStr t)
    | SList (SAtom "sym" :: SAtom g :: l) => option_map (VSym g) (dl l)
    | SList [SAtom "uninit"] => Some VUninit
    | _ => None
    end
  end.
Definition d_value (s : sexp) : option value := d_value_fuel (S (sexp_depth s)) s.

Definition d_event (s : sexp) : option event :=
  match s with
  | SList [SList cs; SList ms] =>
      let dc := fun x => match x with
                         | SList [SAtom ct; SAtom bank; v] => option_map (fun v' => ((ct, bank), v')) (d_value v)
                         | _ => None end in
      let dm := fun x => match x with
                         | SList [o; SAtom m; v] =>
                             match d_nat o, d_value v with Some o', Some v' => Some ((o', m), v') | _, _ => None end
                         | _ => None end in
      match d_list dc cs, d_list dm ms with
      | Some cs', Some ms' => Some {| ev_colls := cs'; ev_meths := ms' |}
      | _, _ => None
      end
  | _ => None
  end.

Definition s_fault (f : fault) : sexp :=
  SAtom (match f with FThrow => "throw" | FOutOfRange => "out_of_range" | FNullDeref => "null_deref"
                 | FDivZero => "div_zero" | FRetrieve => "retrieve_failed" end).
Definition s_stuck (k : stuck) : sexp :=
  match k with
  | KUnbound x => s_tag "unbound" [SAtom x]
  | KUninit x => s_tag "uninit-read" [SAtom x]
  | KType w => s_tag "type" [SAtom w]
  | KOpaque w => s_tag "opaque" [SAtom w]
  end.
Definition s_rows (rs : list (list value)) : sexp := SList (map (fun r => SList (map s_value r)) rs).

Definition s_job (j : job_result) : sexp :=
  match j with
  | JDone rs => s_tag "done" [SList (map s_rows rs)]
  | JAbort rs n f => s_tag "abort" [SList (map s_rows rs); s_nat n; s_fault f]
  | JStuck n k => s_tag "stuck" [s_nat n; s_stuck k]
  end.

(* cpp.run: (program, events) -> job result *)
Definition run_run (s : sexp) : sexp :=
  match s with
  | SList [p; SList evs] =>
      match d_program p, d_list d_event evs with
      | Some p', Some evs' => s_job (run_job p' evs')
      | _, _ => bad_input
      end
  | _ => bad_input
  end.
