(* Static checkers on the C++-subset IR (Cpp/IR.v) for property C02:
     unique_decls  - every translator-introduced identifier (class members, block declarations, loop
                     variables) is declared exactly once in the package;
     well_scoped   - every variable occurrence refers to a class member, to a declaration of an enclosing
                     block (declared EARLIER in the same block when the occurrence is in a declaration
                     initialiser), or to the loop variable of an enclosing for;
     types_ok      - light type consistency from the declared type texts.
   Each checker is an error-list function (the diagnostics the harness reports) and the boolean is
   "the list is empty", so the theorems of Proofs/StaticProofs.v speak about exactly what is reported.
   The static environment mirrors Exec's dynamic one: a list of frames (innermost first), each frame in
   declaration order (loop variable first), class members last; lookup order is Exec.lookup's.
   Executable definitions only; no proofs here. *)
From FV Require Import Base.Prelude Cpp.IR Cpp.Exec.

(* ---------- static environment ---------- *)
(* name, (declared type text, clean): clean = a vector-typed declaration with no initialiser or a literal
   size (so that it certainly holds a vector value); meaningless for other types *)
Definition sentry := (string * (string * bool))%type.
Definition sframe := list sentry.
Definition senv := list sframe.

Fixpoint sget (x : string) (f : sframe) : option (string * bool) :=
  match f with [] => None | (y, tc) :: r => if String.eqb x y then Some tc else sget x r end.
Fixpoint sgets (x : string) (fs : senv) : option (string * bool) :=
  match fs with
  | [] => None
  | f :: r => match sget x f with Some tc => Some tc | None => sgets x r end
  end.
Definition slookup (x : string) (G : senv) (M : sframe) : option (string * bool) :=
  match sgets x G with Some tc => Some tc | None => sget x M end.
Definition bound (x : string) (G : senv) (M : sframe) : bool :=
  match slookup x G M with Some _ => true | None => false end.

Definition clean_init (i : option cexp) : bool :=
  match i with None => true | Some (CInt _) => true | Some _ => false end.
Definition entry_of_decl (d : decl) : sentry := (d_name d, (d_type d, clean_init (d_init d))).
Definition entry_of_member (m : member) : sentry := (m_name m, (m_type m, true)).
Definition loop_entry (x : string) : sentry := (x, ("auto", false)).
Definition member_env (p : program) : sframe := map entry_of_member (p_members p).

Definition is_nil {A} (l : list A) : bool := match l with [] => true | _ => false end.

(* ---------- unique_decls ---------- *)
Fixpoint decls_stmt (s : stmt) : list string :=
  match s with
  | SFor x _ b => x :: decls_block b
  | SIf _ b els => decls_block b ++ match els with Some b2 => decls_block b2 | None => [] end
  | SBlk b => decls_block b
  | _ => []
  end
with decls_block (b : block) : list string :=
  match b with Blk ds body => map d_name ds ++ decls_stmts body end
with decls_stmts (l : stmts) : list string :=
  match l with SNil => [] | SCons s r => decls_stmt s ++ decls_stmts r end.

Definition declared_names (p : program) : list string :=
  map m_name (p_members p) ++ decls_block (p_body p).

(* the names declared again later in the list *)
Fixpoint dups (l : list string) : list string :=
  match l with
  | [] => []
  | x :: r => if mem_str x r then x :: dups r else dups r
  end.
Definition dup_errs (p : program) : list string := dups (declared_names p).
Definition unique_decls (p : program) : bool := is_nil (dup_errs p).

(* ---------- well_scoped ---------- *)
Section Scope.
Variable D : list string.      (* the names the package declares (for the identifier tokens of opaque text) *)

Definition sc_name (G : senv) (M : sframe) (x : string) : list string :=
  if bound x G M then [] else [x].
Definition sc_idents (G : senv) (M : sframe) (ids : list string) : list string :=
  filter (fun x => mem_str x D && negb (bound x G M)) ids.

Fixpoint sc_exp (G : senv) (M : sframe) (e : cexp) {struct e} : list string :=
  match e with
  | CVar x => sc_name G M x
  | CInt _ | CDbl _ _ _ | CBool _ | CStr _ => []
  | CBin _ a b => sc_exp G M a ++ sc_exp G M b
  | CSubI a b => sc_exp G M a ++ sc_exp G M b
  | CUn _ a => sc_exp G M a
  | CNot a => sc_exp G M a
  | CDeref a => sc_exp G M a
  | CCast _ a => sc_exp G M a
  | CCall _ args => sc_args G M args
  | CMeth o _ _ args => sc_exp G M o ++ sc_args G M args
  | CField o _ _ => sc_exp G M o
  | COpaque _ ids => sc_idents G M ids
  end
with sc_args (G : senv) (M : sframe) (l : cexps) {struct l} : list string :=
  match l with CNil => [] | CCons e r => sc_exp G M e ++ sc_args G M r end.

(* declarations in order; an initialiser sees the frame built so far (declared-before-first-read) *)
Fixpoint sc_decls (G : senv) (M : sframe) (cur : sframe) (ds : list decl) : list string :=
  match ds with
  | [] => []
  | d :: r =>
      match d_init d with None => [] | Some e => sc_exp (cur :: G) M e end
      ++ sc_decls G M (cur ++ [entry_of_decl d]) r
  end.

Fixpoint sc_stmt (G : senv) (M : sframe) (s : stmt) {struct s} : list string :=
  match s with
  | SSet x _ e => sc_exp G M e ++ sc_name G M x
  | SPush x _ e => sc_exp G M e ++ sc_name G M x
  | SClear x => sc_name G M x
  | SFill _ => []
  | SThrow _ => []
  | SFetch _ target _ _ _ => sc_name G M target
  | SIota v b => sc_name G M v ++ sc_name G M b
  | SUser _ ids target => sc_idents G M ids ++ match target with Some t => sc_name G M t | None => [] end
  | SLine _ ids => sc_idents G M ids
  | SFor x e b => sc_exp G M e ++ sc_block G M [loop_entry x] b
  | SIf c b els =>
      sc_exp G M c ++ sc_block G M [] b ++ match els with Some b2 => sc_block G M [] b2 | None => [] end
  | SBlk b => sc_block G M [] b
  end
with sc_block (G : senv) (M : sframe) (pre : sframe) (b : block) {struct b} : list string :=
  match b with
  | Blk ds body => sc_decls G M pre ds ++ sc_stmts ((pre ++ map entry_of_decl ds) :: G) M body
  end
with sc_stmts (G : senv) (M : sframe) (l : stmts) {struct l} : list string :=
  match l with SNil => [] | SCons s r => sc_stmt G M s ++ sc_stmts G M r end.
End Scope.

Definition scope_errs (p : program) : list string :=
  sc_block (declared_names p) [] (member_env p) [] (p_body p).
Definition well_scoped (p : program) : bool := is_nil (scope_errs p).

(* the variables the output tree reads must be class members (Exec.fill_row reads members only) *)
Definition branch_errs (p : program) : list string :=
  filter (fun x => negb (mem_str x (map m_name (p_members p)))) (map br_var (p_branches p)).

(* ---------- types_ok ---------- *)
Definition is_int_type (t : string) : bool := String.eqb t "int" || String.eqb t "bool".
Definition is_float_type (t : string) : bool := String.eqb t "double" || String.eqb t "float".

Fixpoint assoc_str (k : string) (l : list (string * string)) : option string :=
  match l with [] => None | (a, b) :: r => if String.eqb k a then Some b else assoc_str k r end.

Section Types.
Variable mt : list (string * string).   (* method / field name -> declared return type text (the data model) *)

Definition int_method (m : string) : bool :=
  match assoc_str m mt with Some t => is_int_type t | None => false end.

(* the expression certainly has an integral (int / bool) value: what `%` needs of both operands *)
Fixpoint ty_int (G : senv) (M : sframe) (e : cexp) {struct e} : bool :=
  match e with
  | CInt _ => true
  | CBool _ => true
  | CVar x => match slookup x G M with Some (t, _) => is_int_type t | None => false end
  | CBin _ a b => ty_int G M a && ty_int G M b
  | CUn _ a => ty_int G M a
  | CNot _ => true
  | CCast t _ => is_int_type t
  | CMeth _ _ m _ => int_method m && negb (String.eqb m "at")
  | CField _ _ m => int_method m && negb (String.eqb m "at")
  | _ => false
  end.

Fixpoint ty_exp (G : senv) (M : sframe) (e : cexp) {struct e} : list string :=
  match e with
  | CBin op a b =>
      (if String.eqb op "%" then
         (if ty_int G M a then [] else ["%-operand:" +++ pr_exp a])
         ++ (if ty_int G M b then [] else ["%-operand:" +++ pr_exp b])
       else [])
      ++ ty_exp G M a ++ ty_exp G M b
  | CSubI a b => ty_exp G M a ++ ty_exp G M b
  | CUn _ a => ty_exp G M a
  | CNot a => ty_exp G M a
  | CDeref a => ty_exp G M a
  | CCast _ a => ty_exp G M a
  | CCall _ args => ty_args G M args
  | CMeth o _ _ args => ty_exp G M o ++ ty_args G M args
  | CField o _ _ => ty_exp G M o
  | _ => []
  end
with ty_args (G : senv) (M : sframe) (l : cexps) {struct l} : list string :=
  match l with CNil => [] | CCons e r => ty_exp G M e ++ ty_args G M r end.

Definition ty_target (G : senv) (M : sframe) (x : string) (ok : string -> bool -> bool) (what : string) : list string :=
  match slookup x G M with
  | Some (t, c) => if ok t c then [] else [what +++ ":" +++ x]
  | None => ["untyped:" +++ x]
  end.

(* a condition that is a bare vector variable has no truth value *)
Definition ty_cond (G : senv) (M : sframe) (c : cexp) : list string :=
  match c with
  | CVar x => match slookup x G M with
              | Some (t, _) => if is_vector_type t then ["vector-condition:" +++ x] else []
              | None => []
              end
  | _ => []
  end.

Fixpoint ty_decls (G : senv) (M : sframe) (cur : sframe) (ds : list decl) : list string :=
  match ds with
  | [] => []
  | d :: r =>
      match d_init d with None => [] | Some e => ty_exp (cur :: G) M e end
      ++ ty_decls G M (cur ++ [entry_of_decl d]) r
  end.

Fixpoint ty_stmt (G : senv) (M : sframe) (s : stmt) {struct s} : list string :=
  match s with
  | SSet x _ e => ty_exp G M e ++ ty_target G M x (fun t _ => negb (is_vector_type t)) "assigned-vector"
  | SPush x _ e => ty_exp G M e ++ ty_target G M x (fun t c => is_vector_type t && c) "push_back-on-non-vector"
  | SClear x => ty_target G M x (fun t c => is_vector_type t && c) "clear-on-non-vector"
  | SFill _ => []
  | SThrow _ => []
  | SFetch _ target _ _ _ =>
      ty_target G M target (fun t _ => negb (is_int_type t) && negb (is_vector_type t)) "collection-into-scalar"
  | SIota v b =>
      ty_target G M v (fun t _ => is_vector_type t) "iota-on-non-vector"
      ++ ty_target G M b (fun t _ => is_int_type t) "iota-start-not-int"
  | SUser _ _ _ => []
  | SLine _ _ => []
  | SFor x e b => ty_exp G M e ++ ty_block G M [loop_entry x] b
  | SIf c b els =>
      ty_exp G M c ++ ty_cond G M c ++ ty_block G M [] b
      ++ match els with Some b2 => ty_block G M [] b2 | None => [] end
  | SBlk b => ty_block G M [] b
  end
with ty_block (G : senv) (M : sframe) (pre : sframe) (b : block) {struct b} : list string :=
  match b with
  | Blk ds body => ty_decls G M pre ds ++ ty_stmts ((pre ++ map entry_of_decl ds) :: G) M body
  end
with ty_stmts (G : senv) (M : sframe) (l : stmts) {struct l} : list string :=
  match l with SNil => [] | SCons s r => ty_stmt G M s ++ ty_stmts G M r end.
End Types.

Definition type_errs (mt : list (string * string)) (p : program) : list string :=
  ty_block mt [] (member_env p) [] (p_body p).
Definition types_ok (mt : list (string * string)) (p : program) : bool := is_nil (type_errs mt p).

(* ---------- vector element types (C++: distinct specialisations of std::vector do not convert) ---------- *)
(* `static_cast<std::vector<A>>(v)` with v declared std::vector<B>, B <> A, is ill-formed: std::vector has no
   converting constructor between element types.  `x.push_back(v)` with x declared std::vector<E> and v declared a
   vector type other than E is ill-formed for the same reason.  Both rules compare DECLARED type texts (spaces
   removed) and only speak when both sides are declared vector types, so `auto` variables and scalar casts are never
   rejected.  Reported under types_ok by c02.check; the theorems about types_ok do not depend on these rules. *)
Fixpoint nospace (s : string) : string :=
  match s with
  | EmptyString => EmptyString
  | String c r => if Ascii.eqb c " "%char then nospace r else String c (nospace r)
  end.
Definition vec_elem (t : string) : option string :=
  if is_vector_type t then Some (substring 12 (String.length t - 13) t) else None.
Definition var_vtype (G : senv) (M : sframe) (x : string) : option string :=
  match slookup x G M with
  | Some (t, _) => let t' := nospace t in if is_vector_type t' then Some t' else None
  | None => None
  end.

Definition vt_cast (G : senv) (M : sframe) (ty : string) (a : cexp) : list string :=
  match a with
  | CVar y => match var_vtype G M y with
              | Some t => if is_vector_type (nospace ty) && negb (String.eqb (nospace ty) t) then ["vector-cast:" +++ y] else []
              | None => []
              end
  | _ => []
  end.

Fixpoint vt_exp (G : senv) (M : sframe) (e : cexp) {struct e} : list string :=
  match e with
  | CBin _ a b => vt_exp G M a ++ vt_exp G M b
  | CSubI a b => vt_exp G M a ++ vt_exp G M b
  | CUn _ a => vt_exp G M a
  | CNot a => vt_exp G M a
  | CDeref a => vt_exp G M a
  | CCast ty a => vt_cast G M ty a ++ vt_exp G M a
  | CCall _ args => vt_args G M args
  | CMeth o _ _ args => vt_exp G M o ++ vt_args G M args
  | CField o _ _ => vt_exp G M o
  | _ => []
  end
with vt_args (G : senv) (M : sframe) (l : cexps) {struct l} : list string :=
  match l with CNil => [] | CCons e r => vt_exp G M e ++ vt_args G M r end.

(* the declared vector type of what is pushed, when it is a variable or a cast to a vector type *)
Definition pushed_vtype (G : senv) (M : sframe) (e : cexp) : option string :=
  match e with
  | CVar y => var_vtype G M y
  | CCast ty _ => if is_vector_type (nospace ty) then Some (nospace ty) else None
  | _ => None
  end.
Definition vt_push (G : senv) (M : sframe) (x : string) (e : cexp) : list string :=
  match var_vtype G M x, pushed_vtype G M e with
  | Some tx, Some te => match vec_elem tx with
                        | Some el => if String.eqb el te then [] else ["push-element-type:" +++ x]
                        | None => []
                        end
  | _, _ => []
  end.

Fixpoint vt_decls (G : senv) (M : sframe) (cur : sframe) (ds : list decl) : list string :=
  match ds with
  | [] => []
  | d :: r =>
      match d_init d with None => [] | Some e => vt_exp (cur :: G) M e end
      ++ vt_decls G M (cur ++ [entry_of_decl d]) r
  end.

Fixpoint vt_stmt (G : senv) (M : sframe) (s : stmt) {struct s} : list string :=
  match s with
  | SSet _ _ e => vt_exp G M e
  | SPush x _ e => vt_exp G M e ++ vt_push G M x e
  | SFor x e b => vt_exp G M e ++ vt_block G M [loop_entry x] b
  | SIf c b els =>
      vt_exp G M c ++ vt_block G M [] b ++ match els with Some b2 => vt_block G M [] b2 | None => [] end
  | SBlk b => vt_block G M [] b
  | _ => []
  end
with vt_block (G : senv) (M : sframe) (pre : sframe) (b : block) {struct b} : list string :=
  match b with
  | Blk ds body => vt_decls G M pre ds ++ vt_stmts ((pre ++ map entry_of_decl ds) :: G) M body
  end
with vt_stmts (G : senv) (M : sframe) (l : stmts) {struct l} : list string :=
  match l with SNil => [] | SCons s r => vt_stmt G M s ++ vt_stmts G M r end.

Definition vtype_errs (p : program) : list string := vt_block [] (member_env p) [] (p_body p).
Definition vtypes_ok (p : program) : bool := is_nil (vtype_errs p).

(* ---------- wire: c02.check (program, method table) -> the four error lists ---------- *)
Definition d_pair_ss (s : sexp) : option (string * string) :=
  match s with SList [SAtom a; SAtom b] => Some (a, b) | _ => None end.

Definition run_check (s : sexp) : sexp :=
  match s with
  | SList [p; SList mts] =>
      match d_program p, d_list d_pair_ss mts with
      | Some p', Some mt =>
          s_tag "ok" [s_tag "unique_decls" [s_strs (dup_errs p')];
                      s_tag "well_scoped" [s_strs (scope_errs p')];
                      s_tag "types_ok" [s_strs (type_errs mt p' ++ vtype_errs p')];
                      s_tag "branch_members" [s_strs (branch_errs p')]]
      | _, _ => bad_input
      end
  | _ => bad_input
  end.
