(* C05 - static analysis of the emitted per-event code (Cpp/IR.v): `event_local p = true` guarantees
   (Proofs/EventLocalProofs.v, over Cpp/Exec.v as it stands) that the rows written for an event and the
   fault of an event do not depend on what the class members held when the event started.

   Members are the only state that survives an event (Exec.run_job threads `members`; block locals are
   re-created at each block entry).  The analysis is
   (a) syntactic: no expression, declaration initialiser, loop range or condition mentions a member name;
       no block declaration or loop variable re-uses a member name (a shadowing local would silently
       capture the writes meant for the member); std::iota operands and opaque user/other lines do not
       mention members;
   (b) an abstract interpretation that tracks, per member, a level
         LClean    - holds an empty vector in every run            (vector member: "Clean")
         LSet      - holds a value determined by this event alone  (vector member: "Dirty", scalar: "Set")
         LGuard F  - as LSet PROVIDED one of the block-local flags in F is currently false
         LAny = LGuard [] - may still hold what an earlier event left   (scalar member: "Unset")
       LClean <= LSet <= LGuard F <= LGuard G (G a subset of F); join at if/else; a loop needs an invariant:
       a state above the entry state that the body maps into itself (found by at most `loop_fuel` rounds of
       joining).  push_back/clear on a member need it at most LSet (push -> LSet, clear -> LClean);
       assignment (and a collection fetch) makes the target LSet; at every Fill every branch variable that
       is a member must be at most LSet; at the end of the event code every vector-typed member must be
       LClean on every path (a path that faults aborts the job and is exempt: after a throw the state is
       bottom).  Guards: a declaration `bool f (true)` of a name not yet bound in its block adds f to every
       guard (vacuously true), any write to / re-binding of / scope exit of a local removes it from every
       guard, and the else side of `if (f)` turns every level guarded by f into LSet.
   Executable definitions only; no proofs here. *)
From FV Require Import Base.Prelude Cpp.IR Cpp.Exec.

Inductive lvl := LClean | LSet | LGuard (flags : list string).
(* LGuard F: the member holds a value determined by this event alone PROVIDED one of the block-local
   flags in F is currently false; nothing is known otherwise.  LGuard [] is "nothing known" (LAny).
   This is what makes the First lowering analysable:
       bool is_first (true);  for (...) { if (is_first) { is_first = false; col = ...; } }
       if (is_first) { throw ...; }   Fill
   the loop invariant is "is_first is false -> col is set", and the throw removes the other case. *)
Definition LAny : lvl := LGuard [].

Definition mem_s (x : string) (l : list string) : bool := existsb (String.eqb x) l.
Definition incl_b (g f : list string) : bool := forallb (fun x => mem_s x f) g.

Definition is_clean (a : lvl) : bool := match a with LClean => true | _ => false end.
Definition lle (a b : lvl) : bool :=
  match a, b with
  | LClean, _ => true
  | LSet, LClean => false
  | LSet, _ => true
  | LGuard f, LGuard g => incl_b g f
  | LGuard _, _ => false
  end.
Definition lmax (a b : lvl) : lvl :=
  match a, b with
  | LClean, _ => b
  | _, LClean => a
  | LSet, _ => b
  | _, LSet => a
  | LGuard f, LGuard g => LGuard (filter (fun x => mem_s x g) f)
  end.

(* the locals xs are (re)bound, assigned or go out of scope: guards on them are dropped *)
Definition lforget_all (xs : list string) (l : lvl) : lvl :=
  match l with LGuard f => LGuard (filter (fun y => negb (mem_s y xs)) f) | _ => l end.
(* a fresh local x has just been initialised to true: "x is false -> ..." holds vacuously *)
Definition lguard (x : string) (l : lvl) : lvl :=
  match l with LGuard f => LGuard (x :: f) | _ => l end.
(* the local x is known to be false here *)
Definition lfalse (x : string) (l : lvl) : lvl :=
  match l with LGuard f => if mem_s x f then LSet else l | _ => l end.

(* abstract state: level per member name (first entry wins, a missing name is LAny) *)
Definition astate := list (string * lvl).

Fixpoint aget (x : string) (a : astate) : lvl :=
  match a with
  | [] => LAny
  | (y, l) :: r => if String.eqb x y then l else aget x r
  end.
Definition aset (x : string) (l : lvl) (a : astate) : astate :=
  map (fun yl => if String.eqb x (fst yl) then (fst yl, l) else yl) a.
Definition amap (g : lvl -> lvl) (a : astate) : astate := map (fun yl => (fst yl, g (snd yl))) a.
Definition aforget_all (xs : list string) : astate -> astate := amap (lforget_all xs).
Definition aforget (x : string) : astate -> astate := aforget_all [x].
Definition ajoin (a b : astate) : astate :=
  map (fun yl => (fst yl, lmax (snd yl) (aget (fst yl) b))) a.
(* a below b, pointwise *)
Definition ale (a b : astate) : bool :=
  forallb (fun yl => lle (aget (fst yl) a) (snd yl)) b.

(* loop invariant search: sigma if the body maps it into itself, else retry from the join *)
Fixpoint ai_loop (body : astate -> option astate) (n : nat) (sg : astate) : option astate :=
  match body sg with
  | None => None
  | Some sg' =>
      if ale sg' sg then Some sg
      else match n with O => None | S k => ai_loop body k (ajoin sg sg') end
  end.
Definition loop_fuel : nat := 4.

Section Checker.
Variable ns : list string.        (* the member names *)
Variable brs : list branch.       (* the booked branches: what a Fill reads *)

Definition is_mem (x : string) : bool := existsb (String.eqb x) ns.
Definition ids_ok (ids : list string) : bool := forallb (fun x => negb (is_mem x)) ids.
Definition exp_ok (e : cexp) : bool := ids_ok (exp_vars e).
Definition decl_ok (d : decl) : bool :=
  negb (is_mem (d_name d)) && match d_init d with None => true | Some e => exp_ok e end.
Definition fill_ok (sg : astate) : bool :=
  forallb (fun b => negb (is_mem (br_var b)) || lle (aget (br_var b) sg) LSet) brs.
(* a write to x: a member becomes LSet; a local loses the guards that mention it *)
Definition awrite (x : string) (sg : astate) : astate := if is_mem x then aset x LSet sg else aforget x sg.
(* after a throw nothing follows in this event: the bottom state *)
Definition abot : astate := map (fun x => (x, LClean)) ns.

Definition is_true_flag (d : decl) : bool :=
  String.eqb (d_type d) "bool" && match d_init d with Some (CBool true) => true | _ => false end.

(* declarations of a block, in order; `seen` = the names already bound in this block's frame *)
Fixpoint ai_decls (ds : list decl) (seen : list string) (sg : astate) : option astate :=
  match ds with
  | [] => Some sg
  | d :: r =>
      if decl_ok d then
        let sg1 := aforget (d_name d) sg in
        let sg2 := if is_true_flag d && negb (mem_s (d_name d) seen) then amap (lguard (d_name d)) sg1 else sg1 in
        ai_decls r (d_name d :: seen) sg2
      else None
  end.

Definition cond_false (c : cexp) (sg : astate) : astate :=
  match c with CVar f => amap (lfalse f) sg | _ => sg end.

Fixpoint ai_stmt (s : stmt) (sg : astate) {struct s} : option astate :=
  match s with
  | SSet x _ e => if exp_ok e then Some (awrite x sg) else None
  | SPush x _ e =>
      if exp_ok e then
        if is_mem x then (if lle (aget x sg) LSet then Some (aset x LSet sg) else None) else Some (aforget x sg)
      else None
  | SClear x =>
      if is_mem x then (if lle (aget x sg) LSet then Some (aset x LClean sg) else None) else Some (aforget x sg)
  | SFill _ => if fill_ok sg then Some sg else None
  | SThrow _ => Some abot
  | SFetch _ target _ _ _ => Some (awrite target sg)
  | SIota v b => if negb (is_mem v) && negb (is_mem b) then Some (aforget v sg) else None
  | SUser _ ids target =>
      if ids_ok ids && match target with Some t => negb (is_mem t) | None => true end then Some sg else None
  | SLine _ ids => if ids_ok ids then Some sg else None
  | SFor x e b =>
      if negb (is_mem x) && exp_ok e then ai_loop (ai_block b [x]) loop_fuel sg else None
  | SIf c b els =>
      if exp_ok c then
        match ai_block b [] sg,
              (match els with Some b2 => ai_block b2 [] (cond_false c sg) | None => Some (cond_false c sg) end) with
        | Some s1, Some s2 => Some (ajoin s1 s2)
        | _, _ => None
        end
      else None
  | SBlk b => ai_block b [] sg
  end
with ai_block (b : block) (pre : list string) (sg : astate) {struct b} : option astate :=
  match b with
  | Blk ds body =>
      match ai_decls ds pre (aforget_all pre sg) with
      | Some sg1 =>
          match ai_stmts body sg1 with
          | Some sg2 => Some (aforget_all (pre ++ map d_name ds) sg2)
          | None => None
          end
      | None => None
      end
  end
with ai_stmts (l : stmts) (sg : astate) {struct l} : option astate :=
  match l with
  | SNil => Some sg
  | SCons s r => match ai_stmt s sg with Some sg' => ai_stmts r sg' | None => None end
  end.
End Checker.

Fixpoint nodupb (l : list string) : bool :=
  match l with [] => true | x :: r => negb (existsb (String.eqb x) r) && nodupb r end.

Definition member_names (p : program) : list string := map m_name (p_members p).
(* at the start of an event: vector members are empty (job start / previous event ended clean), scalars unknown *)
Definition initial_astate (p : program) : astate :=
  map (fun m => (m_name m, if is_vector_type (m_type m) then LClean else LAny)) (p_members p).
Definition final_ok (p : program) (sg : astate) : bool :=
  forallb (fun m => if is_vector_type (m_type m) then is_clean (aget (m_name m) sg) else true) (p_members p).

Definition event_local_state (p : program) : option astate :=
  ai_block (member_names p) (p_branches p) (p_body p) [] (initial_astate p).

Definition event_local (p : program) : bool :=
  nodupb (member_names p) &&
  match event_local_state p with Some sg => final_ok p sg | None => false end.

(* ---------- diagnosis (for the harness: why a program is rejected; not used by the theorems) ---------- *)
Definition lvl_name (l : lvl) : string :=
  match l with
  | LClean => "clean" | LSet => "set" | LGuard [] => "any"
  | LGuard f => "set-if-false:" +++ String.concat "," f
  end.
Definition s_astate (sg : astate) : sexp := SList (map (fun yl => SList [SAtom (fst yl); SAtom (lvl_name (snd yl))]) sg).

(* the first statement (pre-order) at which the analysis stops, with the abstract state before it *)
Section Diagnose.
Variable ns : list string.
Variable brs : list branch.
Fixpoint dg_stmt (s : stmt) (sg : astate) {struct s} : option (string * astate) :=
  match s with
  | SFor x e b =>
      if negb (is_mem ns x) && exp_ok ns e then
        match dg_block b [x] sg with
        | Some d => Some d
        | None =>
            match ai_block ns brs b [x] sg with
            | Some sg' => match dg_block b [x] (ajoin sg sg') with
                          | Some d => Some d
                          | None => match ai_loop (ai_block ns brs b [x]) loop_fuel sg with
                                    | None => Some ("no loop invariant: for " +++ x, sg) | Some _ => None end
                          end
            | None => None
            end
        end
      else Some ("loop range or variable mentions a member: for " +++ x, sg)
  | SIf c b els =>
      if exp_ok ns c then
        match dg_block b [] sg with
        | Some d => Some d
        | None => match els with Some b2 => dg_block b2 [] (cond_false c sg) | None => None end
        end
      else Some ("condition reads a member", sg)
  | SBlk b => dg_block b [] sg
  | SFill _ => if fill_ok ns brs sg then None else Some ("fill with a branch variable possibly left from an earlier event", sg)
  | SPush x _ _ => match ai_stmt ns brs s sg with Some _ => None | None => Some ("push_back: " +++ x, sg) end
  | SClear x => match ai_stmt ns brs s sg with Some _ => None | None => Some ("clear: " +++ x, sg) end
  | SSet x _ _ => match ai_stmt ns brs s sg with Some _ => None | None => Some ("assignment reads a member: " +++ x, sg) end
  | _ => match ai_stmt ns brs s sg with Some _ => None | None => Some ("opaque line or iota mentions a member", sg) end
  end
with dg_block (b : block) (pre : list string) (sg : astate) {struct b} : option (string * astate) :=
  match b with
  | Blk ds body =>
      match ai_decls ns ds pre (aforget_all pre sg) with
      | Some sg1 => dg_stmts body sg1
      | None => Some ("declaration shadows or reads a member", sg)
      end
  end
with dg_stmts (l : stmts) (sg : astate) {struct l} : option (string * astate) :=
  match l with
  | SNil => None
  | SCons s r =>
      match dg_stmt s sg with
      | Some d => Some d
      | None => match ai_stmt ns brs s sg with Some sg' => dg_stmts r sg' | None => Some ("?", sg) end
      end
  end.
End Diagnose.

(* ---------- wire ---------- *)
(* c05.event_local: program -> (verdict, reason, abstract state at the point of rejection / at the end) *)
Definition run_event_local (s : sexp) : sexp :=
  match d_program s with
  | None => bad_input
  | Some p =>
      let ns := member_names p in
      if event_local p then
        s_tag "ok" [s_bool true; SAtom "";
                    match event_local_state p with Some sg => s_astate sg | None => SList [] end]
      else if negb (nodupb ns) then s_tag "ok" [s_bool false; SAtom "duplicate member names"; SList []]
      else match dg_block ns (p_branches p) (p_body p) [] (initial_astate p) with
           | Some (why, sg) => s_tag "ok" [s_bool false; SAtom why; s_astate sg]
           | None =>
               match event_local_state p with
               | Some sg => s_tag "ok" [s_bool false; SAtom "a vector member may be non-empty at the end of the event"; s_astate sg]
               | None => s_tag "ok" [s_bool false; SAtom "rejected"; SList []]
               end
           end
  end.
