(* fill_consistent: static checker on the parsed IR of the emitted package (Cpp/IR.v) for the storage half of C03:
   "each column bound to its own storage that is exactly what the per-event code sets and fills".

   It accepts a program when
   * every branch variable is a class member declared exactly once, and no two branches share a variable;
   * a column variable of scalar (non std::vector) member type is written only by `x = e;` (SSet), a column
     variable of vector type only by `x.push_back(e);` / `x.clear();` (SPush / SClear);
   * nothing else touches a column variable: it is never the target of a retrieval block, of std::iota or of a
     user block, no opaque line mentions it, and no block declaration or loop variable re-declares (shadows) it;
   * every Fill line names the booked tree (`tree("<name>")->Fill();` for ATLAS, `myTree->Fill();` for CMS where
     the booking assigned myTree from the tree of that name, i.e. the booking code named a tree);
   * in the statement list where a Fill stands, the Fill is immediately followed by `x.clear();` for every vector
     column, in branch order, before anything else.
   Executable definitions only; the soundness theorems over Exec are in Proofs/FillConsistentProofs.v. *)
From FV Require Import Base.Prelude Cpp.IR Cpp.Exec.

(* (column variable, declared member type) in branch order; None if some branch variable is not a member *)
Fixpoint member_type (x : string) (ms : list member) : option string :=
  match ms with
  | [] => None
  | m :: r => if String.eqb x (m_name m) then Some (m_type m) else member_type x r
  end.
Fixpoint count_member (x : string) (ms : list member) : nat :=
  match ms with
  | [] => 0
  | m :: r => (if String.eqb x (m_name m) then 1 else 0) + count_member x r
  end.

Fixpoint column_types (ms : list member) (brs : list branch) : option (list (string * string)) :=
  match brs with
  | [] => Some []
  | b :: r =>
      match member_type (br_var b) ms, column_types ms r with
      | Some t, Some r' => Some ((br_var b, t) :: r')
      | _, _ => None
      end
  end.

Fixpoint nodup_str (l : list string) : bool :=
  match l with [] => true | x :: r => negb (mem_str x r) && nodup_str r end.

Fixpoint col_type (x : string) (cols : list (string * string)) : option string :=
  match cols with
  | [] => None
  | (y, t) :: r => if String.eqb x y then Some t else col_type x r
  end.
Definition is_col (cols : list (string * string)) (x : string) : bool :=
  match col_type x cols with Some _ => true | None => false end.
Definition is_vec_col (cols : list (string * string)) (x : string) : bool :=
  match col_type x cols with Some t => is_vector_type t | None => false end.
Definition is_scalar_col (cols : list (string * string)) (x : string) : bool :=
  match col_type x cols with Some t => negb (is_vector_type t) | None => false end.

(* the vector columns in branch order: what must be cleared after each Fill *)
Definition vec_cols (cols : list (string * string)) : list string :=
  map fst (filter (fun c => is_vector_type (snd c)) cols).

Definition none_is_col (cols : list (string * string)) (ids : list string) : bool :=
  forallb (fun x => negb (is_col cols x)) ids.

(* the statement list continues with x.clear() for each of xs, in order; returns the rest *)
Fixpoint strip_clears (xs : list string) (l : stmts) : option stmts :=
  match xs with
  | [] => Some l
  | x :: r =>
      match l with
      | SCons (SClear y) l' => if String.eqb x y then strip_clears r l' else None
      | _ => None
      end
  end.

Definition fill_line_ok (atlas : bool) (tree line : string) : bool :=
  negb (String.eqb tree "") &&
  if atlas then String.eqb line ("tree(""" +++ tree +++ """)->Fill();")
  else String.eqb line "myTree->Fill();".

Section Checker.
Variable atlas : bool.
Variable tree : string.
Variable cols : list (string * string).

Fixpoint ok_stmt (s : stmt) : bool :=
  match s with
  | SSet x _ _ => negb (is_col cols x) || is_scalar_col cols x
  | SPush x _ _ => negb (is_col cols x) || is_vec_col cols x
  | SClear x => negb (is_col cols x) || is_vec_col cols x
  | SFill line => fill_line_ok atlas tree line
  | SThrow _ => true
  | SFetch _ target _ _ _ => negb (is_col cols target)
  | SIota v _ => negb (is_col cols v)
  | SUser _ ids target =>
      none_is_col cols ids && match target with Some t => negb (is_col cols t) | None => true end
  | SLine _ ids => none_is_col cols ids
  | SFor x _ b => negb (is_col cols x) && ok_block b
  | SIf _ b els => ok_block b && match els with Some b2 => ok_block b2 | None => true end
  | SBlk b => ok_block b
  end
with ok_block (b : block) : bool :=
  match b with
  | Blk ds body => forallb (fun d => negb (is_col cols (d_name d))) ds && ok_stmts body
  end
with ok_stmts (l : stmts) : bool :=
  match l with
  | SNil => true
  | SCons s r =>
      ok_stmt s
      && match s with
         | SFill _ => match strip_clears (vec_cols cols) r with Some _ => true | None => false end
         | _ => true
         end
      && ok_stmts r
  end.
End Checker.

Definition branches_ok (p : program) : bool :=
  nodup_str (map br_var (p_branches p))
  && forallb (fun b => Nat.eqb (count_member (br_var b) (p_members p)) 1) (p_branches p).

Definition fill_consistent_for (atlas : bool) (p : program) : bool :=
  match column_types (p_members p) (p_branches p) with
  | None => false
  | Some cols => branches_ok p && ok_block atlas (p_tree p) cols (p_body p)
  end.

(* backend-agnostic form: the program is consistent under one of the two Fill idioms *)
Definition fill_consistent (p : program) : bool :=
  fill_consistent_for true p || fill_consistent_for false p.

(* ---------- shapes of stored values (what the soundness theorem promises about every row entry) ---------- *)
(* a scalar of declared type int never holds a double or a bool, etc. (C++ converts on assignment) *)
Definition scalar_shape (t : string) (v : value) : bool :=
  if String.eqb t "int" then match v with VDbl _ | VBool _ => false | _ => true end
  else if String.eqb t "double" || String.eqb t "float" then match v with VInt _ | VBool _ => false | _ => true end
  else if String.eqb t "bool" then match v with VInt _ | VDbl _ => false | _ => true end
  else true.
(* a std::vector<T> member always holds a vector whose elements have the shape of T *)
Definition shape (t : string) (v : value) : bool :=
  if is_vector_type t then
    match v with VVec l => forallb (scalar_shape (vector_elem_type t)) l | _ => false end
  else scalar_shape t v.

(* ---------- wire ---------- *)
(* c03.fillcheck: (atlas?, program) -> (verdict for that backend, branches_ok, column types or none) *)
Definition run_fillcheck (s : sexp) : sexp :=
  match s with
  | SList [a; p] =>
      match d_bool a, d_program p with
      | Some a', Some p' =>
          SList [s_bool (fill_consistent_for a' p'); s_bool (branches_ok p');
                 match column_types (p_members p') (p_branches p') with
                 | Some cols => SList (map (fun c => SList [SAtom (fst c); SAtom (snd c)]) cols)
                 | None => SAtom "none"
                 end]
      | _, _ => bad_input
      end
  | _ => bad_input
  end.
