(* Dispatch table of the extracted model executable: one command per modelled function. *)
From FV Require Import Base.Prelude Model.ScriptBlocks.

Definition dispatch (cmd : string) (arg : sexp) : sexp :=
  if String.eqb cmd "c15.gen" then ScriptBlocks.run_gen arg
  else s_tag "unknown-command" [SAtom cmd].
