(* Dispatch table of the extracted model executable: one command per modelled function. *)
From FV Require Import Base.Prelude Model.ScriptBlocks Model.MathFuncs gen.MathTable Model.Binding.

Definition dispatch (cmd : string) (arg : sexp) : sexp :=
  if String.eqb cmd "c15.gen" then ScriptBlocks.run_gen arg
  else if String.eqb cmd "c12.audit" then MathFuncs.audit math_env documented
  else if String.eqb cmd "c08.resolve" then Binding.run_resolve arg
  else if String.eqb cmd "c08.rewrite" then Binding.run_rewrite arg
  else s_tag "unknown-command" [SAtom cmd].
