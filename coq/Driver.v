(* Dispatch table of the extracted model executable: one command per modelled function. *)
From FV Require Import Base.Prelude Model.ScriptBlocks Model.MathFuncs gen.MathTable.
From FV Require Model.Collections gen.Collections.

Definition dispatch (cmd : string) (arg : sexp) : sexp :=
  if String.eqb cmd "c15.gen" then ScriptBlocks.run_gen arg
  else if String.eqb cmd "c12.audit" then MathFuncs.audit math_env documented
  else if String.eqb cmd "c06.query" then Model.Collections.run_query_wire gen.Collections.coll_env arg
  else if String.eqb cmd "c06.subst" then Model.Collections.run_subst_wire arg
  else if String.eqb cmd "c06.tables" then Model.Collections.run_tables_wire gen.Collections.coll_env
  else s_tag "unknown-command" [SAtom cmd].
