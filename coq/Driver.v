(* Dispatch table of the extracted model executable: one command per modelled function.
   Model modules are required, not imported: every reference below is qualified. *)
From FV Require Import Base.Prelude.
From FV Require Model.Balance Model.FragTranslate Model.FragQuery Model.ScriptBlocks Model.MathFuncs gen.MathTable Cpp.IR Cpp.Exec Model.KindModel Model.Arith Model.LocalDataset Model.WordSubst Model.CppTypesModel Model.ExecState Cpp.EventLocal Model.Inject gen.Templates Cpp.Static Model.Lowering Cpp.FillConsistent Model.TreeSchema Model.CppLex Model.Consts Model.Binding Model.Collections gen.Collections Model.Shell gen.Runner_atlas_r21 gen.Runner_cms_r5 gen.Runner_cms_r7.

Definition dispatch (cmd : string) (arg : sexp) : sexp :=
  if String.eqb cmd "c15.gen" then ScriptBlocks.run_gen arg
  else if String.eqb cmd "c12.audit" then MathFuncs.audit MathTable.math_env MathTable.documented
  else if String.eqb cmd "cpp.print" then IR.run_print arg
  else if String.eqb cmd "cpp.run" then Exec.run_run arg
  else if String.eqb cmd "c09.translate" then KindModel.run_translate arg
  else if String.eqb cmd "c09.prepass" then KindModel.run_prepass arg
  else if String.eqb cmd "c13.translate" then Arith.run_translate arg
  else if String.eqb cmd "c13.ifexp" then Arith.run_ifexp arg
  else if String.eqb cmd "c13.aggregate" then Arith.run_aggregate arg
  else if String.eqb cmd "c11.resub" then WordSubst.run_resub arg
  else if String.eqb cmd "c11.subst" then WordSubst.run_subst arg
  else if String.eqb cmd "c11.seq" then WordSubst.run_seq arg
  else if String.eqb cmd "c11.spec" then WordSubst.run_spec arg
  else if String.eqb cmd "c11.tokens" then WordSubst.run_tokens arg
  else if String.eqb cmd "c11.call" then WordSubst.run_call arg
  else if String.eqb cmd "c11.finder" then WordSubst.run_finder arg
  else if String.eqb cmd "c17.execute" then LocalDataset.run_execute arg
  else if String.eqb cmd "c12.audit" then MathFuncs.audit MathTable.math_env MathTable.documented
  else if String.eqb cmd "c10.parse" then CppTypesModel.run_parse arg
  else if String.eqb cmd "c10.access" then CppTypesModel.run_access arg
  else if String.eqb cmd "c10.lookup" then CppTypesModel.run_lookup arg
  else if String.eqb cmd "c10.enum" then CppTypesModel.run_enum arg
  else if String.eqb cmd "c10.translate" then CppTypesModel.run_translate arg
  else if String.eqb cmd "c12.audit" then MathFuncs.audit MathTable.math_env MathTable.documented
  else if String.eqb cmd "c07.history" then ExecState.run_history arg
  else if String.eqb cmd "c12.audit" then MathFuncs.audit MathTable.math_env MathTable.documented
  else if String.eqb cmd "c05.event_local" then EventLocal.run_event_local arg
  else if String.eqb cmd "c12.audit" then MathFuncs.audit MathTable.math_env MathTable.documented
  else if String.eqb cmd "c14.package" then Inject.run_package Templates.inject_cfg arg
  else if String.eqb cmd "c14.dedup" then Inject.run_dedup Templates.inject_cfg arg
  else if String.eqb cmd "c14.slots" then Inject.run_slots Templates.inject_cfg arg
  else if String.eqb cmd "c12.audit" then MathFuncs.audit MathTable.math_env MathTable.documented
  else if String.eqb cmd "c02.check" then Static.run_check arg
  else if String.eqb cmd "c02.balance" then Balance.run_balance arg
  else if String.eqb cmd "c12.audit" then MathFuncs.audit MathTable.math_env MathTable.documented
  else if String.eqb cmd "c04.recognise" then Lowering.run_recognise arg
  else if String.eqb cmd "c12.audit" then MathFuncs.audit MathTable.math_env MathTable.documented
  else if String.eqb cmd "c03.schema" then TreeSchema.run_schema arg
  else if String.eqb cmd "c03.expected" then TreeSchema.run_expected arg
  else if String.eqb cmd "c03.fillcheck" then FillConsistent.run_fillcheck arg
  else if String.eqb cmd "c12.audit" then MathFuncs.audit MathTable.math_env MathTable.documented
  else if String.eqb cmd "c18.render" then Consts.run_render arg
  else if String.eqb cmd "c18.render_v0" then Consts.run_render_v0 arg
  else if String.eqb cmd "c18.lex_prefix" then CppLex.run_lex_prefix arg
  else if String.eqb cmd "c18.literal_at" then Consts.run_literal_at arg
  else if String.eqb cmd "c18.bank" then Consts.run_bank arg
  else if String.eqb cmd "c18.attribute" then Consts.run_attribute arg
  else if String.eqb cmd "c18.user_call" then Consts.run_user_call arg
  else if String.eqb cmd "c18.book" then Consts.run_book arg
  else if String.eqb cmd "c18.float_grammar" then Consts.run_float_grammar arg
  else if String.eqb cmd "c01.frag" then FragTranslate.run_frag arg
  else if String.eqb cmd "c12.audit" then MathFuncs.audit MathTable.math_env MathTable.documented
  else if String.eqb cmd "c08.resolve" then Binding.run_resolve arg
  else if String.eqb cmd "c08.rewrite" then Binding.run_rewrite arg
  else if String.eqb cmd "c01.denote" then FragTranslate.run_denote arg
  else if String.eqb cmd "c12.audit" then MathFuncs.audit MathTable.math_env MathTable.documented
  else if String.eqb cmd "c06.query" then Model.Collections.run_query_wire gen.Collections.coll_env arg
  else if String.eqb cmd "c06.subst" then Model.Collections.run_subst_wire arg
  else if String.eqb cmd "c06.tables" then Model.Collections.run_tables_wire gen.Collections.coll_env
  else if String.eqb cmd "c01.fragrow" then FragTranslate.run_fragrow arg
  else if String.eqb cmd "c01.denote_row" then FragTranslate.run_denote_row arg
  else if String.eqb cmd "c01.fragq" then FragQuery.run_fragq arg
  else if String.eqb cmd "c01.denote_q" then FragQuery.run_denote_q arg
  else if String.eqb cmd "c12.audit" then MathFuncs.audit MathTable.math_env MathTable.documented
  else if String.eqb cmd "c16.atlas_r21" then Shell.run_wire Runner_atlas_r21.script Shell.pkg_atlas Shell.slots_atlas arg
  else if String.eqb cmd "c16.cms_r5" then Shell.run_wire Runner_cms_r5.script Shell.pkg_cms Shell.slots_cms arg
  else if String.eqb cmd "c16.cms_r7" then Shell.run_wire Runner_cms_r7.script Shell.pkg_cms Shell.slots_cms arg
  else if String.eqb cmd "c16.getopts" then Shell.run_getopts arg
  else s_tag "unknown-command" [SAtom cmd].
