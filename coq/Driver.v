(* Dispatch table of the extracted model executable: one command per modelled function. *)
From FV Require Import Base.Prelude Model.ScriptBlocks Model.MathFuncs gen.MathTable.
From FV Require Model.Shell gen.Runner_atlas_r21 gen.Runner_cms_r5 gen.Runner_cms_r7.

Definition dispatch (cmd : string) (arg : sexp) : sexp :=
  if String.eqb cmd "c15.gen" then ScriptBlocks.run_gen arg
  else if String.eqb cmd "c12.audit" then MathFuncs.audit math_env documented
  else if String.eqb cmd "c16.atlas_r21" then Shell.run_wire Runner_atlas_r21.script Shell.pkg_atlas Shell.slots_atlas arg
  else if String.eqb cmd "c16.cms_r5" then Shell.run_wire Runner_cms_r5.script Shell.pkg_cms Shell.slots_cms arg
  else if String.eqb cmd "c16.cms_r7" then Shell.run_wire Runner_cms_r7.script Shell.pkg_cms Shell.slots_cms arg
  else if String.eqb cmd "c16.getopts" then Shell.run_getopts arg
  else s_tag "unknown-command" [SAtom cmd].
