(* Dispatch table of the extracted model executable: one command per modelled function. *)
From FV Require Import Base.Prelude Model.ScriptBlocks Model.MathFuncs gen.MathTable.
From FV Require Import Model.CppLex Model.Consts.

Definition dispatch (cmd : string) (arg : sexp) : sexp :=
  if String.eqb cmd "c15.gen" then ScriptBlocks.run_gen arg
  else if String.eqb cmd "c12.audit" then MathFuncs.audit math_env documented
  else if String.eqb cmd "c18.render" then Consts.run_render arg
  else if String.eqb cmd "c18.render_v0" then Consts.run_render_v0 arg
  else if String.eqb cmd "c18.lex_prefix" then CppLex.run_lex_prefix arg
  else if String.eqb cmd "c18.literal_at" then Consts.run_literal_at arg
  else if String.eqb cmd "c18.bank" then Consts.run_bank arg
  else if String.eqb cmd "c18.attribute" then Consts.run_attribute arg
  else if String.eqb cmd "c18.book" then Consts.run_book arg
  else if String.eqb cmd "c18.float_grammar" then Consts.run_float_grammar arg
  else s_tag "unknown-command" [SAtom cmd].
