(* Dispatch table of the extracted model executable: one command per modelled function. *)
From FV Require Import Base.Prelude Model.ScriptBlocks Model.MathFuncs gen.MathTable Cpp.IR Cpp.Exec.
From FV Require Import Cpp.FillConsistent Model.TreeSchema.

Definition dispatch (cmd : string) (arg : sexp) : sexp :=
  if String.eqb cmd "c15.gen" then ScriptBlocks.run_gen arg
  else if String.eqb cmd "c12.audit" then MathFuncs.audit math_env documented
  else if String.eqb cmd "cpp.print" then IR.run_print arg
  else if String.eqb cmd "cpp.run" then Exec.run_run arg
  else if String.eqb cmd "c03.schema" then TreeSchema.run_schema arg
  else if String.eqb cmd "c03.expected" then TreeSchema.run_expected arg
  else if String.eqb cmd "c03.fillcheck" then FillConsistent.run_fillcheck arg
  else s_tag "unknown-command" [SAtom cmd].
