(* Dispatch table of the extracted model executable: one command per modelled function. *)
From FV Require Import Base.Prelude Model.ScriptBlocks Model.MathFuncs gen.MathTable.
From FV Require Model.CppTypesModel.

Definition dispatch (cmd : string) (arg : sexp) : sexp :=
  if String.eqb cmd "c15.gen" then ScriptBlocks.run_gen arg
  else if String.eqb cmd "c12.audit" then MathFuncs.audit math_env documented
  else if String.eqb cmd "c10.parse" then CppTypesModel.run_parse arg
  else if String.eqb cmd "c10.access" then CppTypesModel.run_access arg
  else if String.eqb cmd "c10.lookup" then CppTypesModel.run_lookup arg
  else if String.eqb cmd "c10.enum" then CppTypesModel.run_enum arg
  else if String.eqb cmd "c10.translate" then CppTypesModel.run_translate arg
  else s_tag "unknown-command" [SAtom cmd].
