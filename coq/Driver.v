(* Dispatch table of the extracted model executable: one command per modelled function. *)
From FV Require Import Base.Prelude Model.ScriptBlocks Model.MathFuncs gen.MathTable.
From FV Require Model.Inject gen.Templates.

Definition dispatch (cmd : string) (arg : sexp) : sexp :=
  if String.eqb cmd "c15.gen" then ScriptBlocks.run_gen arg
  else if String.eqb cmd "c12.audit" then MathFuncs.audit math_env documented
  else if String.eqb cmd "c14.package" then Inject.run_package Templates.inject_cfg arg
  else if String.eqb cmd "c14.dedup" then Inject.run_dedup Templates.inject_cfg arg
  else if String.eqb cmd "c14.slots" then Inject.run_slots Templates.inject_cfg arg
  else s_tag "unknown-command" [SAtom cmd].
